/-
ADSS: what `Commune::share` deals, and `recover` on collections of shares — for every `F`.
-/
import StarModel.Lemmas.Strobe
import StarModel.Lemmas.Dealer

namespace StarModel.Adss
open StarModel StarModel.Sharks

/-- the MAC `J` that `Commune::share` emits for transcript `T` and `(threshold, M, R)` -/
def macOf (F : Perm) (T : Option Strobe) (thr : Nat) (M R : Bytes) : Bytes :=
  (Strobe.sendMac F (macTranscript F T thr M R) Params.macLength).2

/-- the 16-byte key `K` -/
def keyOf (F : Perm) (T : Option Strobe) (thr : Nat) (M R : Bytes) : Bytes :=
  (Strobe.prf F (Strobe.sendMac F (macTranscript F T thr M R) Params.macLength).1 Params.adssKeyLen).2

theorem keyOf_length (F : Perm) (T) (thr : Nat) (M R : Bytes) : (keyOf F T thr M R).length = 16 := by
  unfold keyOf; rw [Strobe.prf_length]; rfl

theorem macOf_length (F : Perm) (T) (thr : Nat) (M R : Bytes) : (macOf F T thr M R).length = 64 := by
  unfold macOf; rw [Strobe.sendMac_length]; rfl

/-- a 16-byte string padded with zeros is a canonical field element (`< 2^128 < p`) -/
theorem key_chunk_canonical (K : Bytes) (hK : K.length = 16) :
    Fp.fromRepr (K ++ Bytes.zeros 8) = some (Bytes.toNatLE K) := by
  have hlt : Bytes.toNatLE K < 256 ^ 16 := by have := Bytes.toNatLE_lt K; rwa [hK] at this
  have hval : Bytes.toNatLE (K ++ Bytes.zeros 8) = Bytes.toNatLE K := by
    have : ∀ (a : Bytes) (n : Nat), Bytes.toNatLE (a ++ Bytes.zeros n) = Bytes.toNatLE a := by
      intro a n
      induction a with
      | nil =>
        induction n with
        | zero => rfl
        | succ n ih => simp only [Bytes.zeros, List.replicate_succ, List.nil_append, Bytes.toNatLE] at ih ⊢; rw [ih]; rfl
      | cons b a ih => simp only [List.cons_append, Bytes.toNatLE]; rw [ih]
    exact this K 8
  unfold Fp.fromRepr
  have hlen : (K ++ Bytes.zeros 8).length = Fp.reprLen := by
    rw [Sharks.reprLen_eq]; simp [hK, Bytes.zeros]
  have hle : Params.reprLittleEndian = true := rfl
  simp only [hlen, hle, ne_eq, not_true_eq_false, if_false, if_true, hval]
  have hp : (256 : Nat) ^ 16 < Fp.p := by decide +kernel
  have : Bytes.toNatLE K < Fp.p := by omega
  simp [this]

theorem chunks_kvec (K : Bytes) (hK : K.length = 16) :
    chunks Params.fieldElementLen ((K ++ Bytes.zeros Params.adssKeyPadLen).length / Params.fieldElementLen)
      (K ++ Bytes.zeros Params.adssKeyPadLen) = [K ++ Bytes.zeros 8] := by
  have h1 : Params.fieldElementLen = 24 := rfl
  have h2 : Params.adssKeyPadLen = 16 := rfl
  rw [h1, h2]
  have hl : (K ++ Bytes.zeros 16).length = 32 := by simp [hK, Bytes.zeros]
  rw [hl]
  unfold chunks
  simp only [show (32 : Nat) / 24 = 1 from rfl, List.range_one, List.map_cons, List.map_nil, Nat.zero_mul,
    List.drop_zero]
  congr 1
  rw [List.take_append, hK]
  simp [Bytes.zeros, List.take_of_length_le, hK]

/-- what `deal` returns, spelled out: J, K, C, D are the transcript outputs and the single
polynomial is `(t-1 draws of the transcript RNG) ++ [K as field element]` -/
theorem deal_ok (F : Perm) (fuel : Nat) (T : Option Strobe) (thr : Nat) (M R : Bytes) (d : Dealt)
    (h : deal F fuel T thr M R = some (.ok d)) :
    d.J = macOf F T thr M R ∧ d.K = keyOf F T thr M R ∧
    d.C = (Strobe.sendEnc F (encKey F d.K) M).2 ∧
    d.D = (Strobe.sendEnc F (Strobe.sendEnc F (encKey F d.K) M).1 R).2 ∧
    ∃ g', DealtFrom (rngNext F) fuel thr [Bytes.toNatLE d.K]
      ⟨(Strobe.prf F (Strobe.sendMac F (macTranscript F T thr M R) Params.macLength).1 Params.adssKeyLen).1⟩
      g' d.polys := by
  unfold deal at h
  simp only at h
  cases hdr : dealerRng (rngNext F) fuel thr (keyOf F T thr M R ++ Bytes.zeros Params.adssKeyPadLen)
      ⟨(Strobe.prf F (Strobe.sendMac F (macTranscript F T thr M R) Params.macLength).1 Params.adssKeyLen).1⟩ with
  | none => unfold keyOf at hdr; rw [hdr] at h; cases h
  | some o =>
    unfold keyOf at hdr
    rw [hdr] at h
    cases o with
    | err k => cases h
    | panic w => cases h
    | ok r =>
      obtain ⟨g', polys⟩ := r
      simp only at h
      injection h with h; injection h with h; subst h
      refine ⟨rfl, rfl, rfl, rfl, g', ?_⟩
      simp only
      have hK := keyOf_length F T thr M R
      unfold keyOf at hK
      unfold dealerRng at hdr
      rw [chunks_kvec _ hK] at hdr
      obtain ⟨elems, hdec, hdf⟩ := dealPolys_ok _ _ _ _ _ _ _ hdr
      have : elems = [Bytes.toNatLE (Strobe.prf F (Strobe.sendMac F (macTranscript F T thr M R) Params.macLength).1 Params.adssKeyLen).2] := by
        simp only [List.map_cons, List.map_nil, key_chunk_canonical _ hK] at hdec
        cases elems with
        | nil => simp at hdec
        | cons e es =>
          cases es with
          | nil => simp at hdec; rw [hdec]
          | cons _ _ => simp at hdec
      rw [this] at hdf
      exact hdf

theorem deal_not_err (F : Perm) (fuel : Nat) (T : Option Strobe) (thr : Nat) (M R : Bytes) :
    (∀ k, deal F fuel T thr M R ≠ some (.err k)) ∧ (∀ w, deal F fuel T thr M R ≠ some (.panic w)) := by
  have hK := keyOf_length F T thr M R
  unfold keyOf at hK
  constructor
  · intro k h
    unfold deal at h
    simp only at h
    split at h
    · cases h
    · rename_i e he
      unfold dealerRng at he
      rw [chunks_kvec _ hK] at he
      exact dealPolys_err_iff _ _ _ _ _ (by
        intro c hc; simp at hc; subst hc; rw [key_chunk_canonical _ hK]; rfl) _ he
    · cases h
    · cases h
  · intro w h
    unfold deal at h
    simp only at h
    split at h
    · cases h
    · cases h
    · rename_i w' he
      exact dealPolys_not_panic _ _ _ _ _ _ he
    · cases h

/-- secret bytes of the dealt polynomial: `K ‖ 0^8` -/
theorem deal_secret (F : Perm) (fuel : Nat) (T : Option Strobe) (thr : Nat) (ht : 1 ≤ thr) (M R : Bytes)
    (d : Dealt) (h : deal F fuel T thr M R = some (.ok d)) :
    Sharks.Dealt thr d.polys ∧ secretOf d.polys = d.K ++ Bytes.zeros 8 := by
  obtain ⟨_, hK, _, _, g', hdf⟩ := deal_ok F fuel T thr M R d h
  have hKl : d.K.length = 16 := by rw [hK]; exact keyOf_length F T thr M R
  have hlt : ∀ e ∈ [Bytes.toNatLE d.K], e < Fp.p := by
    intro e he; simp at he; subst he
    have := Bytes.toNatLE_lt d.K; rw [hKl] at this
    have hp : (256 : Nat) ^ 16 < Fp.p := by decide +kernel
    omega
  obtain ⟨hd, hlast, _⟩ := hdf.dealt ht hlt
  refine ⟨hd, ?_⟩
  unfold secretOf
  have : d.polys.map (fun poly => Fp.toRepr (poly.getLastD 0)) = [Bytes.toNatLE d.K].map Fp.toRepr := by
    rw [← hlast, List.map_map]; rfl
  rw [this]
  simp only [List.map_cons, List.map_nil, List.flatten_cons, List.flatten_nil, List.append_nil]
  exact (fromRepr_some _ _ (key_chunk_canonical d.K hKl)).2.2

theorem macTranscript_mirror (F : Perm) (thr : Nat) (M R : Bytes) :
    Strobe.Mirror (macTranscript F none thr M R) (macTranscript F none thr M R) :=
  Strobe.Mirror.refl_of_none _ (by
    unfold macTranscript
    rw [Strobe.key_isReceiver, Strobe.ad_isReceiver, Strobe.ad_isReceiver]
    exact Strobe.new_isReceiver F _)

/-- the key the transcript derives after a MAC of `n` bytes (`n = 64`: `keyOf`) -/
def keyAfterMac (F : Perm) (thr : Nat) (M R : Bytes) (n : Nat) : Bytes :=
  (Strobe.prf F (Strobe.sendMac F (macTranscript F none thr M R) n).1 Params.adssKeyLen).2

theorem keyAfterMac_64 (F : Perm) (thr : Nat) (M R : Bytes) :
    keyAfterMac F thr M R Params.macLength = keyOf F none thr M R := rfl

/-- **`verify` decided**: it accepts exactly when the tag is the transcript's MAC AND the
interpolated key is the key the transcript derives after that MAC -/
theorem verify_iff (F : Perm) (c : Commune) (J K : Bytes) :
    verify F c J K = true ↔
      J = (Strobe.sendMac F (macTranscript F none c.thr c.M c.R) J.length).2 ∧
      K = keyAfterMac F c.thr c.M c.R J.length := by
  have hmt := macTranscript_mirror F c.thr c.M c.R
  have hiff := Strobe.recvMac_iff F _ _ hmt J
  unfold verify
  simp only
  by_cases hv : (Strobe.recvMac F (macTranscript F none c.thr c.M c.R) J).2 = true
  · rw [if_pos hv, Strobe.recvMac_state F _ _ hmt J hv, Strobe.prf_withRecv]
    simp only [beq_iff_eq]
    unfold keyAfterMac
    constructor
    · intro h; exact ⟨hiff.mp hv, h.symm⟩
    · intro h; exact h.2.symm
  · rw [if_neg hv]
    constructor
    · intro h; cases h
    · intro h; exact absurd (hiff.mpr h.1) hv

/-- `recover` once the interpolated key is known: the outcome is decided by the MAC comparison
and the comparison of the interpolated key with the transcript's key -/
theorem recover_of_key (F : Perm) (s0 : Share) (rest : List Share) (K M R : Bytes) (hKl : K.length = 16)
    (hk : Sharks.recover s0.thr ((s0 :: rest).map (·.S)) = .ok (K ++ Bytes.zeros 8))
    (hC : s0.C = (Strobe.sendEnc F (encKey F K) M).2)
    (hD : s0.D = (Strobe.sendEnc F (Strobe.sendEnc F (encKey F K) M).1 R).2) :
    recover F (s0 :: rest) =
      if s0.J = (Strobe.sendMac F (macTranscript F none s0.thr M R) s0.J.length).2 ∧
          K = keyAfterMac F s0.thr M R s0.J.length
      then .ok ⟨s0.thr, M, R⟩ else .err "mac" := by
  unfold recover
  simp only
  rw [hk]
  simp only
  have hlen : ¬ ((K ++ Bytes.zeros 8).length < Params.adssKeyLen) := by
    simp [hKl, Bytes.zeros]; decide
  rw [if_neg hlen]
  have htake : (K ++ Bytes.zeros 8).take Params.adssKeyLen = K := by
    rw [show Params.adssKeyLen = 16 from rfl, List.take_append_of_le_length (by omega)]
    exact List.take_of_length_le (by omega)
  rw [htake]
  have hmir : Strobe.Mirror (encKey F K) (encKey F K) :=
    Strobe.Mirror.refl_of_none _ (by unfold encKey; rw [Strobe.key_isReceiver, Strobe.new_isReceiver])
  obtain ⟨hM, hmir2⟩ := Strobe.recvEnc_sendEnc F _ _ hmir M
  obtain ⟨hR, _⟩ := Strobe.recvEnc_sendEnc F _ _ hmir2 R
  rw [hC, hM, hD, hR]
  have hiff := verify_iff F ⟨s0.thr, M, R⟩ s0.J K
  by_cases hj : s0.J = (Strobe.sendMac F (macTranscript F none s0.thr M R) s0.J.length).2 ∧
      K = keyAfterMac F s0.thr M R s0.J.length
  · rw [if_pos (hiff.mpr hj), if_pos hj]
  · have : ¬ verify F ⟨s0.thr, M, R⟩ s0.J K = true := fun h => hj (hiff.mp h)
    rw [if_neg this, if_neg hj]

/-- the collection `xs ↦ share at x` of one dealing, with the fields of the FIRST share replaced
(used for the tamper theorems): Shamir recovery only looks at the `S` components -/
theorem sharks_recover_dealt (F : Perm) (fuel : Nat) (thr : Nat) (ht : 1 ≤ thr) (M R : Bytes) (d : Dealt)
    (hd : deal F fuel none thr M R = some (.ok d))
    (xs : List Nat) (hx : ∀ x ∈ xs, x < Fp.p) (hc : thr ≤ xs.toFinset.card) :
    Sharks.recover thr (xs.map (evaluate d.polys)) = .ok (d.K ++ Bytes.zeros 8) := by
  obtain ⟨hdealt, hsec⟩ := deal_secret F fuel none thr ht M R d hd
  rw [recover_evaluate thr ht d.polys hdealt xs hx, if_pos hc, hsec]

/-- **Honest recovery.** Any collection of shares of one sharing (default transcript) holding at
least `thr ≥ 1` distinct points — in any order, with duplicates and surplus — recovers exactly
`(thr, M, R)`. -/
theorem recover_honest (F : Perm) (fuel : Nat) (thr : Nat) (ht : 1 ≤ thr) (M R : Bytes) (d : Dealt)
    (hd : deal F fuel none thr M R = some (.ok d))
    (xs : List Nat) (hx : ∀ x ∈ xs, x < Fp.p) (hc : thr ≤ xs.toFinset.card) :
    recover F (xs.map fun x => (⟨thr, evaluate d.polys x, d.C, d.D, d.J⟩ : Share)) = .ok ⟨thr, M, R⟩ := by
  obtain ⟨hJ, hK, hC, hD, _⟩ := deal_ok F fuel none thr M R d hd
  have hKl : d.K.length = 16 := by rw [hK]; exact keyOf_length F none thr M R
  cases hxs : xs with
  | nil => rw [hxs] at hc; simp at hc; omega
  | cons x0 xr =>
    simp only [List.map_cons]
    have hk : Sharks.recover thr (((⟨thr, evaluate d.polys x0, d.C, d.D, d.J⟩ : Share) ::
        xr.map fun x => (⟨thr, evaluate d.polys x, d.C, d.D, d.J⟩ : Share)).map (·.S)) =
        .ok (d.K ++ Bytes.zeros 8) := by
      have := sharks_recover_dealt F fuel thr ht M R d hd xs hx hc
      rw [hxs] at this
      simpa [List.map_map, Function.comp_def] using this
    rw [recover_of_key F _ _ d.K M R hKl hk hC hD]
    simp only
    rw [if_pos]
    have hl : d.J.length = Params.macLength := by rw [hJ]; exact macOf_length F none thr M R
    refine ⟨?_, ?_⟩
    · rw [hJ]; unfold macOf; rw [Strobe.sendMac_length]
    · rw [hl, keyAfterMac_64, hK]

/-- **Acceptance implies the MAC relation**, for ARBITRARY collections of shares: if `recover`
returns a commune then its threshold is the first share's, and the first share's tag is exactly
the MAC of the returned `(threshold, M, R)` under the default transcript. -/
theorem recover_ok_mac (F : Perm) (s0 : Share) (rest : List Share) (c : Commune)
    (h : recover F (s0 :: rest) = .ok c) :
    c.thr = s0.thr ∧ s0.J = (Strobe.sendMac F (macTranscript F none c.thr c.M c.R) s0.J.length).2 ∧
    ∃ key, Sharks.recover s0.thr ((s0 :: rest).map (·.S)) = .ok key ∧ Params.adssKeyLen ≤ key.length ∧
      c.M = (Strobe.recvEnc F (encKey F (key.take Params.adssKeyLen)) s0.C).2 ∧
      c.R = (Strobe.recvEnc F (Strobe.recvEnc F (encKey F (key.take Params.adssKeyLen)) s0.C).1 s0.D).2 ∧
      key.take Params.adssKeyLen = keyAfterMac F c.thr c.M c.R s0.J.length := by
  unfold recover at h
  simp only at h
  cases hk : Sharks.recover s0.thr ((s0 :: rest).map (·.S)) with
  | err k => rw [hk] at h; cases h
  | panic w => rw [hk] at h; cases h
  | ok key =>
    rw [hk] at h
    simp only at h
    by_cases hl : key.length < Params.adssKeyLen
    · rw [if_pos hl] at h; cases h
    · rw [if_neg hl] at h
      by_cases hv : verify F ⟨s0.thr, (Strobe.recvEnc F (encKey F (key.take Params.adssKeyLen)) s0.C).2,
          (Strobe.recvEnc F (Strobe.recvEnc F (encKey F (key.take Params.adssKeyLen)) s0.C).1 s0.D).2⟩ s0.J
          (key.take Params.adssKeyLen) = true
      · rw [if_pos hv] at h
        injection h with h; subst h
        obtain ⟨v1, v2⟩ := (verify_iff F _ _ _).mp hv
        exact ⟨rfl, v1, key, rfl, by omega, rfl, rfl, v2⟩
      · rw [if_neg hv] at h; cases h

theorem recover_not_panic (F : Perm) (shares : List Share) (w : String) : recover F shares ≠ .panic w := by
  unfold recover
  cases shares with
  | nil => simp
  | cons s0 rest =>
    simp only
    cases hk : Sharks.recover s0.thr ((s0 :: rest).map (·.S)) with
    | err k => simp
    | panic w' => exact absurd hk (Sharks.recover_not_panic _ _ _)
    | ok key =>
      simp only
      split
      · simp
      · split <;> simp

end StarModel.Adss
