/-
The ristretto255 group order `ℓ` is prime (Pratt certificate, kernel-evaluated modular powers), and
the value-level scalar operations of the model are the field operations of `ZMod ℓ`.
-/
import StarModel.Scalar25519
import StarModel.Lemmas.PowMod
import Mathlib.FieldTheory.Finite.Basic

namespace StarModel.Scalar25519
open StarModel.Fp (lucas_of_factors powMod_eq cast_pow_eq)

set_option maxRecDepth 4000

theorem prime_1257559732178653 : Nat.Prime 1257559732178653 := by
  apply lucas_of_factors _ 2 [(2, 2), (3, 1), (7, 1), (23, 1), (531581, 1), (1224481, 1)] (by norm_num) (by norm_num)
  · intro qe h; simp only [List.mem_cons, List.not_mem_nil, or_false] at h; rcases h with rfl | rfl | rfl | rfl | rfl | rfl <;> norm_num
  · decide +kernel
  · decide +kernel

theorem prime_4434155615661930479 : Nat.Prime 4434155615661930479 := by
  apply lucas_of_factors _ 17 [(2, 1), (41, 1), (43, 1), (1257559732178653, 1)] (by norm_num) (by norm_num)
  · intro qe h
    simp only [List.mem_cons, List.not_mem_nil, or_false] at h
    rcases h with rfl | rfl | rfl | rfl
    · norm_num
    · norm_num
    · norm_num
    · exact prime_1257559732178653
  · decide +kernel
  · decide +kernel

theorem prime_292386187 : Nat.Prime 292386187 := by
  apply lucas_of_factors _ 2 [(2, 1), (3, 4), (307, 1), (5879, 1)] (by norm_num) (by norm_num)
  · intro qe h; simp only [List.mem_cons, List.not_mem_nil, or_false] at h; rcases h with rfl | rfl | rfl | rfl <;> norm_num
  · decide +kernel
  · decide +kernel

theorem prime_172054593956031949258510691 : Nat.Prime 172054593956031949258510691 := by
  apply lucas_of_factors _ 2 [(2, 1), (5, 1), (1361, 1), (2851, 1), (4434155615661930479, 1)] (by norm_num) (by norm_num)
  · intro qe h
    simp only [List.mem_cons, List.not_mem_nil, or_false] at h
    rcases h with rfl | rfl | rfl | rfl | rfl
    · norm_num
    · norm_num
    · norm_num
    · norm_num
    · exact prime_4434155615661930479
  · decide +kernel
  · decide +kernel

theorem prime_213441916511 : Nat.Prime 213441916511 := by
  apply lucas_of_factors _ 13 [(2, 1), (5, 1), (73, 1), (292386187, 1)] (by norm_num) (by norm_num)
  · intro qe h
    simp only [List.mem_cons, List.not_mem_nil, or_false] at h
    rcases h with rfl | rfl | rfl | rfl
    · norm_num
    · norm_num
    · norm_num
    · exact prime_292386187
  · decide +kernel
  · decide +kernel

theorem prime_14741173 : Nat.Prime 14741173 := by norm_num

theorem prime_58964693 : Nat.Prime 58964693 := by
  apply lucas_of_factors _ 2 [(2, 2), (14741173, 1)] (by norm_num) (by norm_num)
  · intro qe h
    simp only [List.mem_cons, List.not_mem_nil, or_false] at h
    rcases h with rfl | rfl
    · norm_num
    · exact prime_14741173
  · decide +kernel
  · decide +kernel

theorem prime_3044861653679985063343 : Nat.Prime 3044861653679985063343 := by
  apply lucas_of_factors _ 5 [(2, 1), (3, 1), (11, 1), (30703, 1), (82163, 1), (132667, 1), (137849, 1)]
    (by norm_num) (by norm_num)
  · intro qe h; simp only [List.mem_cons, List.not_mem_nil, or_false] at h; rcases h with rfl | rfl | rfl | rfl | rfl | rfl | rfl <;> norm_num
  · decide +kernel
  · decide +kernel

theorem prime_19757330305831588566944191468367130476339 :
    Nat.Prime 19757330305831588566944191468367130476339 := by
  apply lucas_of_factors _ 2 [(2, 1), (269, 1), (213441916511, 1), (172054593956031949258510691, 1)]
    (by norm_num) (by norm_num)
  · intro qe h
    simp only [List.mem_cons, List.not_mem_nil, or_false] at h
    rcases h with rfl | rfl | rfl | rfl
    · norm_num
    · norm_num
    · exact prime_213441916511
    · exact prime_172054593956031949258510691
  · decide +kernel
  · decide +kernel

theorem prime_276602624281642239937218680557139826668747 :
    Nat.Prime 276602624281642239937218680557139826668747 := by
  apply lucas_of_factors _ 2 [(2, 1), (7, 1), (19757330305831588566944191468367130476339, 1)]
    (by norm_num) (by norm_num)
  · intro qe h
    simp only [List.mem_cons, List.not_mem_nil, or_false] at h
    rcases h with rfl | rfl | rfl
    · norm_num
    · norm_num
    · exact prime_19757330305831588566944191468367130476339
  · decide +kernel
  · decide +kernel

theorem prime_198211423230930754013084525763697 : Nat.Prime 198211423230930754013084525763697 := by
  apply lucas_of_factors _ 5 [(2, 4), (3, 1), (23, 1), (58964693, 1), (3044861653679985063343, 1)]
    (by norm_num) (by norm_num)
  · intro qe h
    simp only [List.mem_cons, List.not_mem_nil, or_false] at h
    rcases h with rfl | rfl | rfl | rfl | rfl
    · norm_num
    · norm_num
    · norm_num
    · exact prime_58964693
    · exact prime_3044861653679985063343
  · decide +kernel
  · decide +kernel

/-- **the ristretto255 group order is prime** -/
theorem ell_prime : Nat.Prime ell := by
  apply lucas_of_factors ell 2
    [(2, 2), (3, 1), (11, 1), (198211423230930754013084525763697, 1),
      (276602624281642239937218680557139826668747, 1)] (by decide +kernel) (by decide +kernel)
  · intro qe h
    simp only [List.mem_cons, List.not_mem_nil, or_false] at h
    rcases h with rfl | rfl | rfl | rfl | rfl
    · norm_num
    · norm_num
    · norm_num
    · exact prime_198211423230930754013084525763697
    · exact prime_276602624281642239937218680557139826668747
  · decide +kernel
  · decide +kernel

instance : Fact (Nat.Prime ell) := ⟨ell_prime⟩

theorem ell_pos : 0 < ell := ell_prime.pos

abbrev S := ZMod ell

@[simp] theorem cast_ell : ((ell : Nat) : S) = 0 := ZMod.natCast_self ell
theorem cast_mod (a : Nat) : ((a % ell : Nat) : S) = (a : S) := by simp

theorem add_lt (a b : Nat) : add a b < ell := Nat.mod_lt _ ell_pos
theorem sub_lt (a b : Nat) : sub a b < ell := Nat.mod_lt _ ell_pos
theorem mul_lt (a b : Nat) : mul a b < ell := Nat.mod_lt _ ell_pos

@[simp] theorem add_cast (a b : Nat) : ((add a b : Nat) : S) = (a : S) + b := by simp [add]
@[simp] theorem mul_cast (a b : Nat) : ((mul a b : Nat) : S) = (a : S) * b := by simp [mul]

theorem cast_ell_sub (b : Nat) : ((ell - b % ell : Nat) : S) = -(b : S) := by
  rw [Nat.cast_sub (Nat.mod_lt b ell_pos).le]; simp

@[simp] theorem sub_cast (a b : Nat) : ((sub a b : Nat) : S) = (a : S) - b := by
  unfold sub; rw [cast_mod, Nat.cast_add, cast_ell_sub]; ring

@[simp] theorem neg_cast (a : Nat) : ((neg a : Nat) : S) = -(a : S) := by
  unfold neg; rw [cast_mod, cast_ell_sub]

@[simp] theorem pow_cast (a e : Nat) : ((pow a e : Nat) : S) = (a : S) ^ e := cast_pow_eq a e

/-- `Scalar::invert` is the field inverse (and `invert 0 = 0`, like `0⁻¹ = 0`) -/
@[simp] theorem invert_cast (a : Nat) : ((invert a : Nat) : S) = (a : S)⁻¹ := by
  unfold invert
  rw [pow_cast]
  by_cases h : (a : S) = 0
  · rw [h, inv_zero]
    have h2l : 2 < ell := by decide +kernel
    have : 0 < ell - 2 := by omega
    exact zero_pow this.ne'
  · have hf : (a : S) ^ (ell - 1) = 1 := ZMod.pow_card_sub_one_eq_one h
    have h2 : (a : S) ^ (ell - 2) * a = 1 := by
      rw [← pow_succ]
      have h2l : 2 < ell := by decide +kernel
      have : ell - 2 + 1 = ell - 1 := by omega
      rw [this, hf]
    exact eq_inv_of_mul_eq_one_left h2

theorem eq_of_cast_eq {a b : Nat} (ha : a < ell) (hb : b < ell) (h : (a : S) = b) : a = b := by
  have := (ZMod.natCast_eq_natCast_iff' a b ell).mp h
  rwa [Nat.mod_eq_of_lt ha, Nat.mod_eq_of_lt hb] at this

end StarModel.Scalar25519
