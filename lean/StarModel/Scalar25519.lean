/-
`curve25519_dalek::scalar::Scalar` (4.1.3): integers modulo the ristretto255 group order
`ℓ = 2^252 + 27742317777372353535851937790883648493`, modelled by their canonical value `< ℓ`
(dalek keeps every `Scalar` reduced; the limb / Montgomery code is validated differentially by
the `scalar` correspondence stream, not modelled).
-/
import StarModel.Bytes
import StarModel.Fp
namespace StarModel.Scalar25519
open StarModel

/-- the group order `ℓ` (`BASEPOINT_ORDER`) -/
def ell : Nat := 2 ^ 252 + 27742317777372353535851937790883648493

def add (a b : Nat) : Nat := (a + b) % ell
def sub (a b : Nat) : Nat := (a + (ell - b % ell)) % ell
def neg (a : Nat) : Nat := (ell - a % ell) % ell
def mul (a b : Nat) : Nat := (a * b) % ell

/-- `a^e mod ℓ` by the structurally recursive square-and-multiply of `Fp.powModFuel` -/
def pow (a e : Nat) : Nat := Fp.powMod a e ell

/-- `Scalar::invert`: `a^(ℓ-2)`; in particular `invert 0 = 0` (dalek does not reject zero) -/
def invert (a : Nat) : Nat := pow a (ell - 2)

/-- `Scalar::from_bytes_mod_order([u8; 32])` -/
def fromBytesModOrder (bs : Bytes) : Nat := Bytes.toNatLE bs % ell

/-- `Scalar::from_bytes_mod_order_wide(&[u8; 64])` -/
def fromBytesModOrderWide (bs : Bytes) : Nat := Bytes.toNatLE bs % ell

/-- `Scalar::to_bytes` -/
def toBytes (a : Nat) : Bytes := Bytes.ofNatLE 32 a

/-- `Scalar::from_canonical_bytes`: exactly 32 bytes whose little-endian value is below `ℓ`
(this also forces the top bit to be clear) -/
def fromCanonicalBytes (bs : Bytes) : Option Nat :=
  if bs.length ≠ 32 then none
  else
    let v := Bytes.toNatLE bs
    if v < ell then some v else none

end StarModel.Scalar25519
