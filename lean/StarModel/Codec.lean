/-
The serialisation layer of `ppoprf::ppoprf` (ppoprf/src/ppoprf.rs):

* `ServerPublicKey::load_from_bincode`, `ProofDLEQ::load_from_bincode`: the size guard followed by
  `bincode::deserialize` (bincode 1.3.3: fixed-width little-endian integers, trailing bytes
  allowed, no byte limit);
* the `serde_json` text of `Point` (a newtype over `CompressedRistretto`: an array of 32 numbers)
  and of `Evaluation` (`output` through the base64 adapters `point_serialize` /
  `point_deserialize`, `proof : Option<ProofDLEQ>`), read with the semantics of
  `serde_json::from_str` (1.0.151) on the code serde's derive generates: optional whitespace,
  fields in any order, unknown fields skipped (`IgnoredAny`), a missing `proof` is `None`,
  duplicate fields are refused, a struct may also be given as an array of its fields, nothing but
  whitespace may follow the value.

* feature `key-sync`: bincode of `ServerKeyStateRef` / `ServerKeyState`, including bitvec 1.1.1's
  transport format of `BitVec<usize, Lsb0>`.

Specification-level model of third-party crates (bincode, serde, serde_json, base64, dalek's serde
impls), validated byte for byte by the `codec` correspondence stream. No Mathlib.
-/
import StarModel.Bytes
import StarModel.Params
import StarModel.Scalar25519
import StarModel.Ppoprf
import StarModel.Base64
import StarModel.Ggm
namespace StarModel.Codec
open StarModel

/-! ### bincode -/

/-- `n` map entries `(u8, [u8; 32])`, in sequence; `none` when the input ends early -/
def pkEntries : Nat → Bytes → Option (List (UInt8 × Bytes))
  | 0, _ => some []
  | _ + 1, [] => none
  | n + 1, md :: rest =>
    if rest.length < Params.compressedPointLen then none
    else
      match pkEntries n (rest.drop Params.compressedPointLen) with
      | some l => some ((md, rest.take Params.compressedPointLen) :: l)
      | none => none

/-- serde's `BTreeMap` visitor: the entries are inserted one after the other -/
def insertAll (es : List (UInt8 × Bytes)) : List (UInt8 × Bytes) :=
  es.foldl (fun acc e => Ppoprf.mdInsert e.1 e.2 acc) []

/-- `bincode::deserialize::<ServerPublicKey>`: 32 raw bytes, the map length as `u64`, then that
many `(tag, point)` entries. Points are not validated; bytes after the last entry are ignored. -/
def pkDecode (bs : Bytes) : Option Ppoprf.PublicKey :=
  if bs.length < Params.compressedPointLen + 8 then none
  else
    let n := Bytes.toNatLE ((bs.drop Params.compressedPointLen).take 8)
    match pkEntries n (bs.drop (Params.compressedPointLen + 8)) with
    | some es => some ⟨bs.take Params.compressedPointLen, insertAll es⟩
    | none => none

/-- `ServerPublicKey::load_from_bincode` -/
def pkFromBincode (bs : Bytes) : Outcome Ppoprf.PublicKey :=
  if bs.length > Params.maxSerializedPkSize then .err "TooBig"
  else
    match pkDecode bs with
    | some pk => .ok pk
    | none => .err "Bincode"

/-- `bincode::deserialize::<ProofDLEQ>`: two scalars, each 32 bytes that must be canonical
(dalek's `Deserialize for Scalar` goes through `from_canonical_bytes`) -/
def proofDecode (bs : Bytes) : Option (Nat × Nat) :=
  if bs.length < 64 then none
  else
    match Scalar25519.fromCanonicalBytes (bs.take 32),
        Scalar25519.fromCanonicalBytes ((bs.drop 32).take 32) with
    | some c, some s => some (c, s)
    | _, _ => none

/-- `ProofDLEQ::load_from_bincode` -/
def proofFromBincodeFull (bs : Bytes) : Outcome (Nat × Nat) :=
  if bs.length > Params.maxSerializedProofSize then .err "TooBig"
  else
    match proofDecode bs with
    | some p => .ok p
    | none => .err "Bincode"

/-! ### bincode of the key state (feature `key-sync`)

`ServerKeyStateRef { oprf_key, public_key, ggm_key : GGMPuncturableKey { prgs : Vec<{key : [u8; 32]}>,
prefixes : Vec<(Prefix { bits : BitVec<usize, Lsb0> }, Vec<u8>)>, punctured : Vec<Prefix> } }`.
bitvec 1.1.1 transports a bit sequence as the struct `BitSeq { order : str, head : BitIdx { width : u8,
index : u8 }, bits : u64, data : [usize] }`; under bincode: the type name of the ordering with its
`u64` length, two bytes, the bit count, the element count, the elements as `u64`. -/

/-- what a `ServerKeyState` carries -/
structure KeyState where
  oprfKey : Nat
  publicKey : Ppoprf.PublicKey
  prgs : List Bytes
  ggm : Ggm.Key Bytes

/-- `any::type_name::<bitvec::order::Lsb0>()` (ASCII, so the code points are the UTF-8 bytes) -/
def orderName : Bytes := "bitvec::order::Lsb0".toList.map fun c => UInt8.ofNat c.toNat

/-- value of a bit string, first bit least significant (`Lsb0`) -/
def bitsVal : Ggm.Bits → Nat
  | [] => 0
  | b :: bs => (if b then 1 else 0) + 2 * bitsVal bs

/-- the storage elements (`usize`, 64 bits) of a bit vector that starts at bit 0 of its buffer;
dead bits are transported as zero -/
def bitsWords : Nat → Ggm.Bits → List Nat
  | 0, _ => []
  | _ + 1, [] => []
  | fuel + 1, b :: bs => bitsVal ((b :: bs).take 64) :: bitsWords fuel ((b :: bs).drop 64)

/-- `bincode::serialize(&BitVec<usize, Lsb0>)` for a vector whose head index is 0 (every vector
`ggm.rs` stores is built by `to_bitvec` / `clone` from bit 0) -/
def bitvecToBincode (bits : Ggm.Bits) : Bytes :=
  let words := bitsWords bits.length bits
  Bytes.le64 orderName.length ++ orderName ++ [64, 0] ++ Bytes.le64 bits.length
    ++ Bytes.le64 words.length ++ words.flatMap Bytes.le64

/-- `bincode::serialize(&ServerKeyStateRef)` -/
def keyStateToBincode (ks : KeyState) : Bytes :=
  Scalar25519.toBytes ks.oprfKey ++ ks.publicKey.toBincode
    ++ Bytes.le64 ks.prgs.length ++ ks.prgs.flatten
    ++ Bytes.le64 ks.ggm.prefixes.length
    ++ (ks.ggm.prefixes.flatMap fun p => bitvecToBincode p.1 ++ (Bytes.le64 p.2.length ++ p.2))
    ++ Bytes.le64 ks.ggm.punctured.length ++ ks.ggm.punctured.flatMap bitvecToBincode

/-- take `n` bytes -/
def rdBytes (n : Nat) (bs : Bytes) : Option (Bytes × Bytes) :=
  if bs.length < n then none else some (bs.take n, bs.drop n)

def rdU64 (bs : Bytes) : Option (Nat × Bytes) :=
  match rdBytes 8 bs with
  | some (x, r) => some (Bytes.toNatLE x, r)
  | none => none

def rdU8 : Bytes → Option (UInt8 × Bytes)
  | [] => none
  | b :: r => some (b, r)

/-- `n` items in sequence (every item consumes at least one byte, so a huge count runs into the
end of the input) -/
def rdSeq {α : Type} (item : Bytes → Option (α × Bytes)) : Nat → Bytes → Option (List α × Bytes)
  | 0, bs => some ([], bs)
  | n + 1, bs =>
    match item bs with
    | some (a, r) =>
      match rdSeq item n r with
      | some (l, r') => some (a :: l, r')
      | none => none
    | none => none

/-- bit `k` of a buffer of 64-bit elements, `Lsb0` -/
def wordsBit (words : List Nat) (k : Nat) : Bool := (words.getD (k / 64) 0 / 2 ^ (k % 64)) % 2 = 1

/-- `BitVec<usize, Lsb0>::deserialize` under bincode: the ordering name must match, the width must
be 64, the head index below 64, and `head + bits` must fit the transported elements; the value is
the bit span `[head, head + bits)` of the buffer -/
def rdBitVec (bs : Bytes) : Option (Ggm.Bits × Bytes) :=
  match rdU64 bs with
  | none => none
  | some (olen, r0) =>
    match rdBytes olen r0 with
    | none => none
    | some (name, r1) =>
      if name ≠ orderName then none
      else
        match r1 with
        | w :: idx :: r2 =>
          if w ≠ 64 ∨ idx.toNat ≥ 64 then none
          else
            match rdU64 r2 with
            | none => none
            | some (nbits, r3) =>
              match rdU64 r3 with
              | none => none
              | some (dlen, r4) =>
                match rdSeq rdU64 dlen r4 with
                | none => none
                | some (words, r5) =>
                  if idx.toNat + nbits > 64 * dlen then none
                  else some ((List.range nbits).map fun j => wordsBit words (idx.toNat + j), r5)
        | _ => none

def rdVecU8 (bs : Bytes) : Option (Bytes × Bytes) :=
  match rdU64 bs with
  | some (n, r) => rdBytes n r
  | none => none

def rdPkEntry (bs : Bytes) : Option ((UInt8 × Bytes) × Bytes) :=
  match rdU8 bs with
  | some (md, r) =>
    match rdBytes Params.compressedPointLen r with
    | some (pt, r') => some ((md, pt), r')
    | none => none
  | none => none

/-- `ServerPublicKey::deserialize`, with the rest of the input -/
def rdPk (bs : Bytes) : Option (Ppoprf.PublicKey × Bytes) :=
  match rdBytes Params.compressedPointLen bs with
  | none => none
  | some (base, r0) =>
    match rdU64 r0 with
    | none => none
    | some (n, r1) =>
      match rdSeq rdPkEntry n r1 with
      | some (es, r2) => some (⟨base, insertAll es⟩, r2)
      | none => none

def rdPrefixEntry (bs : Bytes) : Option ((Ggm.Bits × Bytes) × Bytes) :=
  match rdBitVec bs with
  | some (bits, r) =>
    match rdVecU8 r with
    | some (seed, r') => some ((bits, seed), r')
    | none => none
  | none => none

/-- `bincode::deserialize::<ServerKeyState>` (no size guard; trailing bytes allowed) -/
def keyStateFromBincode (bs : Bytes) : Option KeyState :=
  match rdBytes 32 bs with
  | none => none
  | some (kb, r0) =>
    match Scalar25519.fromCanonicalBytes kb with
    | none => none
    | some k =>
      match rdPk r0 with
      | none => none
      | some (pk, r1) =>
        match rdU64 r1 with
        | none => none
        | some (nprg, r2) =>
          match rdSeq (rdBytes 32) nprg r2 with
          | none => none
          | some (prgs, r3) =>
            match rdU64 r3 with
            | none => none
            | some (npfx, r4) =>
              match rdSeq rdPrefixEntry npfx r4 with
              | none => none
              | some (pfxs, r5) =>
                match rdU64 r5 with
                | none => none
                | some (npun, r6) =>
                  match rdSeq rdBitVec npun r6 with
                  | none => none
                  | some (pun, _) => some ⟨k, pk, prgs, ⟨pfxs, pun⟩⟩

/-! ### JSON: emitters (`serde_json::to_string`) -/

def digitChar (n : Nat) : Char := Char.ofNat (48 + n)

/-- decimal text of a byte (`itoa`) -/
def u8Chars (n : Nat) : List Char :=
  if n < 10 then [digitChar n]
  else if n < 100 then [digitChar (n / 10), digitChar (n % 10)]
  else [digitChar (n / 100), digitChar (n / 10 % 10), digitChar (n % 10)]

/-- the elements of a number array after the first one: `,n,n,…` -/
def tailChars : Bytes → List Char
  | [] => []
  | b :: bs => ',' :: (u8Chars b.toNat ++ tailChars bs)

/-- a byte tuple / sequence as a JSON array of numbers -/
def bytesToJsonChars : Bytes → List Char
  | [] => ['[', ']']
  | b :: bs => '[' :: (u8Chars b.toNat ++ tailChars bs ++ [']'])

/-- `serde_json::to_string(&Point)` -/
def pointToJsonChars (pt : Bytes) : List Char := bytesToJsonChars pt

def pointToJson (pt : Bytes) : String := String.ofList (pointToJsonChars pt)

/-- `{"c":[…],"s":[…]}` -/
def proofToJsonChars (c s : Nat) : List Char :=
  "{\"c\":".toList ++ bytesToJsonChars (Scalar25519.toBytes c) ++ ",\"s\":".toList
    ++ bytesToJsonChars (Scalar25519.toBytes s) ++ ['}']

/-- `serde_json::to_string(&Evaluation)`: `{"output":"<base64>","proof":null | {…}}` -/
def evaluationToJsonChars (output : Bytes) (proof : Option (Nat × Nat)) : List Char :=
  "{\"output\":\"".toList ++ Base64.encodeChars output ++ "\",\"proof\":".toList
    ++ (match proof with
        | none => "null".toList
        | some (c, s) => proofToJsonChars c s)
    ++ ['}']

def evaluationToJson (output : Bytes) (proof : Option (Nat × Nat)) : String :=
  String.ofList (evaluationToJsonChars output proof)

/-! ### JSON: reader (`serde_json::from_str`) -/

def isWs (c : Char) : Bool := c = ' ' || c = '\n' || c = '\t' || c = '\r'

/-- `parse_whitespace` -/
def skipWs : List Char → List Char
  | [] => []
  | c :: cs => if isWs c then skipWs cs else c :: cs

def isDigit (c : Char) : Bool := 48 ≤ c.toNat && c.toNat ≤ 57

/-- does a fraction or an exponent follow (the number is then a float, which no `u8` accepts) -/
def floatFollows : List Char → Bool
  | c :: _ => c = '.' || c = 'e' || c = 'E'
  | [] => false

/-- the digit run at the head of the input, accumulated into `acc` -/
def takeDigits : List Char → Nat → Nat × List Char
  | [], acc => (acc, [])
  | c :: cs, acc => if isDigit c then takeDigits cs (10 * acc + (c.toNat - 48)) else (acc, c :: cs)

/-- `deserialize_u8` at a non-whitespace position: an unsigned integer literal without leading
zeros, fraction or exponent, of value at most 255. (`-0` is a float for serde_json, every other
negative literal is out of range.) -/
def parseU8 : List Char → Option (UInt8 × List Char)
  | [] => none
  | c :: cs =>
    if c = '0' then
      match cs with
      | d :: _ => if isDigit d || floatFollows cs then none else some (0, cs)
      | [] => some (0, cs)
    else if isDigit c then
      let r := takeDigits cs (c.toNat - 48)
      if r.1 > 255 || floatFollows r.2 then none else some (UInt8.ofNat r.1, r.2)
    else none

/-- the elements after the first one of a fixed-size tuple: each `,` element -/
def parseElems : Nat → List Char → Option (Bytes × List Char)
  | 0, cs => some ([], cs)
  | n + 1, cs =>
    match skipWs cs with
    | ',' :: rest =>
      match parseU8 (skipWs rest) with
      | some (b, r) =>
        match parseElems n r with
        | some (bs, r') => some (b :: bs, r')
        | none => none
      | none => none
    | _ => none

/-- `deserialize_tuple(n, …)` with a visitor that takes exactly `n` bytes (`n ≥ 1`), as dalek's
visitors for `CompressedRistretto` and `Scalar` do: `[` e₁ `,` … `,` eₙ `]`; fewer elements are an
`invalid_length` error, more are `trailing characters` -/
def parseByteArray (n : Nat) (cs : List Char) : Option (Bytes × List Char) :=
  match skipWs cs with
  | '[' :: rest =>
    match parseU8 (skipWs rest) with
    | some (b, r) =>
      match parseElems (n - 1) r with
      | some (bs, r') =>
        match skipWs r' with
        | ']' :: r'' => some (b :: bs, r'')
        | _ => none
      | none => none
    | none => none
  | _ => none

/-- `Scalar::deserialize`: 32 bytes, canonical -/
def parseScalar (cs : List Char) : Option (Nat × List Char) :=
  match parseByteArray 32 cs with
  | some (bs, r) =>
    match Scalar25519.fromCanonicalBytes bs with
    | some v => some (v, r)
    | none => none
  | none => none

def hexDigitVal (c : Char) : Option Nat :=
  let v := c.toNat
  if 48 ≤ v ∧ v ≤ 57 then some (v - 48)
  else if 97 ≤ v ∧ v ≤ 102 then some (v - 87)
  else if 65 ≤ v ∧ v ≤ 70 then some (v - 55)
  else none

/-- `decode_hex_escape`: four hex digits -/
def hex4 : List Char → Option (Nat × List Char)
  | a :: b :: c :: d :: rest =>
    match hexDigitVal a, hexDigitVal b, hexDigitVal c, hexDigitVal d with
    | some w, some x, some y, some z => some (((w * 16 + x) * 16 + y) * 16 + z, rest)
    | _, _, _, _ => none
  | _ => none

/-- `parse_escape` (validating) after the backslash: the decoded character and the rest -/
def parseEscape : List Char → Option (Char × List Char)
  | [] => none
  | e :: rest =>
    if e = '"' then some ('"', rest)
    else if e = '\\' then some ('\\', rest)
    else if e = '/' then some ('/', rest)
    else if e = 'b' then some (Char.ofNat 8, rest)
    else if e = 'f' then some (Char.ofNat 12, rest)
    else if e = 'n' then some ('\n', rest)
    else if e = 'r' then some ('\r', rest)
    else if e = 't' then some ('\t', rest)
    else if e = 'u' then
      match hex4 rest with
      | none => none
      | some (n, r) =>
        if 0xDC00 ≤ n ∧ n ≤ 0xDFFF then none
        else if n < 0xD800 ∨ n > 0xDBFF then some (Char.ofNat n, r)
        else
          match r with
          | '\\' :: 'u' :: r2 =>
            match hex4 r2 with
            | none => none
            | some (n2, r3) =>
              if n2 < 0xDC00 ∨ n2 > 0xDFFF then none
              else some (Char.ofNat ((n - 0xD800) * 1024 + (n2 - 0xDC00) + 0x10000), r3)
          | _ => none
    else none

/-- `parse_str` after the opening quote: the decoded text, whether an escape occurred (the text
is then `Copied`, not `Borrowed`), and the rest after the closing quote. Control characters are
refused. -/
def parseStr : Nat → List Char → Option (List Char × Bool × List Char)
  | 0, _ => none
  | _ + 1, [] => none
  | fuel + 1, c :: cs =>
    if c = '"' then some ([], false, cs)
    else if c = '\\' then
      match parseEscape cs with
      | some (d, r) =>
        match parseStr fuel r with
        | some (s, _, r') => some (d :: s, true, r')
        | none => none
      | none => none
    else if c.toNat < 32 then none
    else
      match parseStr fuel cs with
      | some (s, e, r') => some (c :: s, e, r')
      | none => none

/-- `ignore_escape` after the backslash (no surrogate validation) -/
def ignoreEscape : List Char → Option (List Char)
  | [] => none
  | e :: rest =>
    if e = '"' || e = '\\' || e = '/' || e = 'b' || e = 'f' || e = 'n' || e = 'r' || e = 't' then
      some rest
    else if e = 'u' then (hex4 rest).map (·.2)
    else none

/-- `ignore_str` after the opening quote -/
def ignoreStr : Nat → List Char → Option (List Char)
  | 0, _ => none
  | _ + 1, [] => none
  | fuel + 1, c :: cs =>
    if c = '"' then some cs
    else if c = '\\' then
      match ignoreEscape cs with
      | some r => ignoreStr fuel r
      | none => none
    else if c.toNat < 32 then none
    else ignoreStr fuel cs

def dropDigits : List Char → List Char
  | [] => []
  | c :: cs => if isDigit c then dropDigits cs else c :: cs

/-- `ignore_exponent` at the `e` -/
def ignoreExponent : List Char → Option (List Char)
  | _ :: cs =>
    let cs := match cs with
      | s :: r => if s = '+' || s = '-' then r else cs
      | [] => cs
    match cs with
    | d :: r => if isDigit d then some (dropDigits r) else none
    | [] => none
  | [] => none

/-- `ignore_integer` (after an optional minus sign): the JSON number grammar -/
def ignoreNumber : List Char → Option (List Char)
  | [] => none
  | c :: cs =>
    let afterInt : Option (List Char) :=
      if c = '0' then
        match cs with
        | d :: _ => if isDigit d then none else some cs
        | [] => some cs
      else if isDigit c then some (dropDigits cs)
      else none
    match afterInt with
    | none => none
    | some r =>
      match r with
      | '.' :: r1 =>
        match r1 with
        | d :: r2 =>
          if isDigit d then
            let r3 := dropDigits r2
            match r3 with
            | x :: _ => if x = 'e' || x = 'E' then ignoreExponent r3 else some r3
            | [] => some r3
          else none
        | [] => none
      | x :: _ => if x = 'e' || x = 'E' then ignoreExponent r else some r
      | [] => some r

/-- the literal `lit` must come next (`parse_ident`) -/
def expectLit (lit : List Char) (cs : List Char) : Option (List Char) :=
  if lit.isPrefixOf cs then some (cs.drop lit.length) else none

/-- the states of `ignore_value`'s loop: a value is expected / a value or an opening bracket has
just been consumed inside the innermost enclosing frame (the head of the stack) -/
inductive IgnSt where
  | value
  | after (acceptComma : Bool)

/-- `Deserializer::ignore_value` (what `IgnoredAny` runs): skips one JSON value of any shape,
iteratively, with the stack of open brackets -/
def ignoreGo : Nat → IgnSt → List Char → List Char → Option (List Char)
  | 0, _, _, _ => none
  | fuel + 1, .value, stack, cs =>
    match skipWs cs with
    | [] => none
    | c :: rest =>
      let scalarEnd : Option (List Char) :=
        if c = 'n' then expectLit "ull".toList rest
        else if c = 't' then expectLit "rue".toList rest
        else if c = 'f' then expectLit "alse".toList rest
        else if c = '-' then ignoreNumber rest
        else if isDigit c then ignoreNumber (c :: rest)
        else if c = '"' then ignoreStr (rest.length + 1) rest
        else none
      if c = '[' || c = '{' then ignoreGo fuel (.after false) (c :: stack) rest
      else
        match scalarEnd with
        | none => none
        | some r =>
          match stack with
          | [] => some r
          | _ :: _ => ignoreGo fuel (.after true) stack r
  | _ + 1, .after _, [], _ => none
  | fuel + 1, .after acceptComma, frame :: stack, cs =>
    match skipWs cs with
    | [] => none
    | c :: rest =>
      if (c = ']' && frame = '[') || (c = '}' && frame = '{') then
        match stack with
        | [] => some rest
        | _ :: _ => ignoreGo fuel (.after true) stack rest
      else
        let next : Option (List Char) :=
          if acceptComma then (if c = ',' then some rest else none) else some (c :: rest)
        match next with
        | none => none
        | some r =>
          if frame = '{' then
            match skipWs r with
            | '"' :: r1 =>
              match ignoreStr (r1.length + 1) r1 with
              | some r2 =>
                match skipWs r2 with
                | ':' :: r3 => ignoreGo fuel .value (frame :: stack) r3
                | _ => none
              | none => none
            | _ => none
          else ignoreGo fuel .value (frame :: stack) r

def ignoreValue (cs : List Char) : Option (List Char) :=
  ignoreGo (2 * cs.length + 4) .value [] cs

/-- the `visit_map` loop serde's derive generates, over serde_json's `MapAccess`, after the `{`:
`onField key state rest` reads the value of field `key` (after the colon). Returns the final
state and the input after the closing `}`. -/
def objLoop {σ : Type} (onField : List Char → σ → List Char → Option (σ × List Char)) :
    Nat → Bool → σ → List Char → Option (σ × List Char)
  | 0, _, _, _ => none
  | fuel + 1, first, st, cs =>
    match skipWs cs with
    | [] => none
    | c :: rest =>
      if c = '}' then some (st, rest)
      else
        let keyPos : Option (List Char) :=
          if first then some (c :: rest)
          else if c = ',' then some (skipWs rest)
          else none
        match keyPos with
        | some ('"' :: r) =>
          match parseStr (r.length + 1) r with
          | some (key, _, r1) =>
            match skipWs r1 with
            | ':' :: r2 =>
              match onField key st r2 with
              | some (st', r3) => objLoop onField fuel false st' r3
              | none => none
            | _ => none
          | none => none
        | _ => none

/-- field dispatch of `ProofDLEQ`'s derived visitor -/
def proofField (key : List Char) (st : Option Nat × Option Nat) (cs : List Char) :
    Option ((Option Nat × Option Nat) × List Char) :=
  if key = ['c'] then
    match st.1 with
    | some _ => none
    | none => (parseScalar cs).map fun r => ((some r.1, st.2), r.2)
  else if key = ['s'] then
    match st.2 with
    | some _ => none
    | none => (parseScalar cs).map fun r => ((st.1, some r.1), r.2)
  else (ignoreValue cs).map fun r => (st, r)

/-- the second and later elements of a struct given as an array: `,` then the element -/
def seqNext (cs : List Char) : Option (List Char) :=
  match skipWs cs with
  | ',' :: rest =>
    match skipWs rest with
    | [] => none
    | ']' :: _ => none
    | r => some r
  | _ => none

/-- `end_seq` -/
def seqEnd (cs : List Char) : Option (List Char) :=
  match skipWs cs with
  | ']' :: rest => some rest
  | _ => none

/-- `ProofDLEQ::deserialize` (`deserialize_struct`): an object with the fields `c`, `s`, or a
two-element array -/
def parseProof (cs : List Char) : Option ((Nat × Nat) × List Char) :=
  match skipWs cs with
  | '{' :: rest =>
    match objLoop proofField (rest.length + 1) true (none, none) rest with
    | some ((some c, some s), r) => some ((c, s), r)
    | _ => none
  | '[' :: rest =>
    match skipWs rest with
    | [] => none
    | ']' :: _ => none
    | r0 =>
      match parseScalar r0 with
      | some (c, r1) =>
        match seqNext r1 with
        | some r2 =>
          match parseScalar r2 with
          | some (s, r3) => (seqEnd r3).map fun r => ((c, s), r)
          | none => none
        | none => none
      | none => none
  | _ => none

/-- `Option<ProofDLEQ>::deserialize` -/
def parseOptProof (cs : List Char) : Option (Option (Nat × Nat) × List Char) :=
  match skipWs cs with
  | 'n' :: rest => (expectLit "ull".toList rest).map fun r => (none, r)
  | _ => (parseProof cs).map fun r => (some r.1, r.2)

/-- `point_deserialize`: a JSON string without escapes (a borrowed `&str` is demanded), standard
base64 of exactly 32 bytes -/
def parseOutput (cs : List Char) : Option (Bytes × List Char) :=
  match skipWs cs with
  | '"' :: rest =>
    match parseStr (rest.length + 1) rest with
    | some (s, false, r) =>
      match Base64.decodeChars s with
      | some bs => if bs.length = 32 then some (bs, r) else none
      | none => none
    | _ => none
  | _ => none

abbrev EvalState := Option Bytes × Option (Option (Nat × Nat))

/-- field dispatch of `Evaluation`'s derived visitor -/
def evalField (key : List Char) (st : EvalState) (cs : List Char) : Option (EvalState × List Char) :=
  if key = "output".toList then
    match st.1 with
    | some _ => none
    | none => (parseOutput cs).map fun r => ((some r.1, st.2), r.2)
  else if key = "proof".toList then
    match st.2 with
    | some _ => none
    | none => (parseOptProof cs).map fun r => ((st.1, some r.1), r.2)
  else (ignoreValue cs).map fun r => (st, r)

/-- `Evaluation::deserialize` -/
def parseEvaluation (cs : List Char) : Option ((Bytes × Option (Nat × Nat)) × List Char) :=
  match skipWs cs with
  | '{' :: rest =>
    match objLoop evalField (rest.length + 1) true (none, none) rest with
    | some ((some out, proof), r) => some ((out, proof.getD none), r)
    | _ => none
  | '[' :: rest =>
    match skipWs rest with
    | [] => none
    | ']' :: _ => none
    | r0 =>
      match parseOutput r0 with
      | some (out, r1) =>
        match seqNext r1 with
        | some r2 =>
          match parseOptProof r2 with
          | some (proof, r3) => (seqEnd r3).map fun r => ((out, proof), r)
          | none => none
        | none => none
      | none => none
  | _ => none

/-- `Deserializer::end`: only whitespace may follow -/
def atEnd {α : Type} : Option (α × List Char) → Option α
  | some (a, r) => if skipWs r = [] then some a else none
  | none => none

/-- `serde_json::from_str::<Point>` -/
def pointFromJsonChars (cs : List Char) : Option Bytes := atEnd (parseByteArray 32 cs)

/-- `serde_json::from_str::<Evaluation>` -/
def evaluationFromJsonChars (cs : List Char) : Option (Bytes × Option (Nat × Nat)) :=
  atEnd (parseEvaluation cs)

def pointFromJson (s : String) : Option Bytes := pointFromJsonChars s.toList

def evaluationFromJson (s : String) : Option (Bytes × Option (Nat × Nat)) :=
  evaluationFromJsonChars s.toList

end StarModel.Codec
