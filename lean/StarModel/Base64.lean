/-
RFC 4648 base64, standard alphabet, as `base64::prelude::BASE64_STANDARD` (base64 0.22): encoding
pads with `=`; decoding requires canonical padding, rejects symbols outside the alphabet and
non-zero trailing bits. Specification-level model of a third-party crate, validated by the
`codec` / `wasm` correspondence streams.
-/
import StarModel.Bytes
namespace StarModel.Base64
open StarModel

def encChar (n : Nat) : Char :=
  if n < 26 then Char.ofNat (65 + n)
  else if n < 52 then Char.ofNat (97 + (n - 26))
  else if n < 62 then Char.ofNat (48 + (n - 52))
  else if n = 62 then '+' else '/'

def decChar (c : Char) : Option Nat :=
  let v := c.toNat
  if 65 ≤ v ∧ v ≤ 90 then some (v - 65)
  else if 97 ≤ v ∧ v ≤ 122 then some (v - 97 + 26)
  else if 48 ≤ v ∧ v ≤ 57 then some (v - 48 + 52)
  else if c = '+' then some 62
  else if c = '/' then some 63
  else none

/-- encode, as a list of characters -/
def encodeChars : Bytes → List Char
  | [] => []
  | [a] =>
    let n := a.toNat
    [encChar (n / 4), encChar (n % 4 * 16), '=', '=']
  | [a, b] =>
    let n := a.toNat * 256 + b.toNat
    [encChar (n / 1024), encChar (n / 16 % 64), encChar (n % 16 * 4), '=']
  | a :: b :: c :: rest =>
    let n := a.toNat * 65536 + b.toNat * 256 + c.toNat
    encChar (n / 262144) :: encChar (n / 4096 % 64) :: encChar (n / 64 % 64) :: encChar (n % 64) ::
      encodeChars rest

def encode (bs : Bytes) : String := String.ofList (encodeChars bs)

/-- decode a list of characters whose length is a multiple of four -/
def decodeChars : List Char → Option Bytes
  | [] => some []
  | [a, b, '=', '='] => do
    let x ← decChar a
    let y ← decChar b
    if y % 16 ≠ 0 then none else pure [UInt8.ofNat (x * 4 + y / 16)]
  | [a, b, c, '='] => do
    let x ← decChar a
    let y ← decChar b
    let z ← decChar c
    if z % 4 ≠ 0 then none
    else pure [UInt8.ofNat (x * 4 + y / 16), UInt8.ofNat (y % 16 * 16 + z / 4)]
  | a :: b :: c :: d :: rest => do
    let x ← decChar a
    let y ← decChar b
    let z ← decChar c
    let w ← decChar d
    let r ← decodeChars rest
    pure (UInt8.ofNat (x * 4 + y / 16) :: UInt8.ofNat (y % 16 * 16 + z / 4) :: UInt8.ofNat (z % 4 * 64 + w) :: r)
  | _ => none

def decode (s : String) : Option Bytes := decodeChars s.toList

end StarModel.Base64
