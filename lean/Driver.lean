/-
Line-protocol driver: one request per line on stdin, one canonical answer per line on stdout.
The same request lines are produced by the Rust harness together with the implementation's
answers; `tools/run_check.py` diffs the two answer streams.
-/
import StarModel
open StarModel

def kF : Perm := Keccak.keccakF

def hexs (l : List Bytes) : String := String.intercalate "," (l.map Bytes.toHexP)

def parseHexList (s : String) : Option (List Bytes) :=
  if s = "" then some [] else (s.splitOn ",").mapM Bytes.ofHex

def parseNatList (s : String) : Option (List Nat) :=
  if s = "-" ∨ s = "" then some [] else (s.splitOn ",").mapM String.toNat?

def parseStrobeOp (tok : String) : Option Strobe.Op :=
  match tok.splitOn ":" with
  | ["ad", h] => (Bytes.ofHex h).map .ad
  | ["mad", h] => (Bytes.ofHex h).map .metaAd
  | ["key", h] => (Bytes.ofHex h).map .key
  | ["prf", n] => n.toNat?.map .prf
  | ["senc", h] => (Bytes.ofHex h).map .sendEnc
  | ["renc", h] => (Bytes.ofHex h).map .recvEnc
  | ["smac", n] => n.toNat?.map .sendMac
  | ["rmac", h] => (Bytes.ofHex h).map .recvMac
  | _ => none

def showStrobeOut (op : Strobe.Op) (out : Bytes) : String :=
  match op with
  | .ad _ | .metaAd _ | .key _ => "-"
  | .recvMac _ => if out.all (· == 0) then "T" else "F"
  | _ => Bytes.toHexP out

def handleStrobe (proto : String) (toks : List String) : String :=
  match Bytes.ofHex proto, toks.mapM parseStrobeOp with
  | some p, some ops =>
    let r := Strobe.runOps kF (Strobe.new kF p) ops
    "ok " ++ String.intercalate "," (List.zipWith showStrobeOut ops r.2)
  | _, _ => "bad-op"

def rngFills (g : StrobeRng) : List Nat → List Bytes
  | [] => []
  | n :: ns => let r := StrobeRng.fillBytes kF g n; r.2 :: rngFills r.1 ns

/-- scripted RNG of the harness: a list of words, consumed from the front -/
def listNext (ws : List Nat) : List Nat × Nat :=
  match ws with
  | [] => ([], 0)
  | w :: r => (r, w)

def parseHexNat (s : String) : Option Nat :=
  s.toList.foldlM (fun acc c => (Bytes.hexVal c).map (fun d => 16 * acc + d)) 0

def parseWords (s : String) : Option (List Nat) :=
  if s = "-" ∨ s = "" then some [] else (s.splitOn ",").mapM parseHexNat

def natToHex (n : Nat) : String := String.ofList (Nat.toDigits 16 n)

def fuel : Nat := 512

def fe (n : Nat) : String := Bytes.toHexP (Fp.toRepr n)

def parseFe (s : String) : Option Nat := (Bytes.ofHex s).bind Fp.fromRepr

def fpConst (n : String) : String :=
  match n with
  | "MODULUS" => "ok " ++ natToHex Fp.p
  | "NUM_BITS" => s!"ok {Fp.numBits}"
  | "CAPACITY" => s!"ok {Fp.capacity}"
  | "S" => s!"ok {Fp.twoAdicity}"
  | "ZERO" => "ok " ++ fe 0
  | "ONE" => "ok " ++ fe (1 % Fp.p)
  | "TWO_INV" => "ok " ++ fe Fp.twoInv
  | "MULTIPLICATIVE_GENERATOR" => "ok " ++ fe Fp.multiplicativeGenerator
  | "ROOT_OF_UNITY" => "ok " ++ fe Fp.rootOfUnity
  | "ROOT_OF_UNITY_INV" => "ok " ++ fe Fp.rootOfUnityInv
  | "DELTA" => "ok " ++ fe Fp.delta
  | "FIELD_ELEMENT_LEN" => s!"ok {Params.fieldElementLen}"
  | _ => "bad-op"

def optFe : Option Nat → String
  | some v => "ok " ++ fe v
  | none => "err"

def handleFp (toks : List String) : String :=
  match toks with
  | ["fp.const", n] => fpConst n
  | ["fp.un", op, a] =>
    match parseFe a with
    | none => "bad-op"
    | some x =>
      match op with
      | "neg" => "ok " ++ fe (Fp.neg x)
      | "double" => "ok " ++ fe (Fp.double x)
      | "square" => "ok " ++ fe (Fp.square x)
      | "invert" => optFe (Fp.invert x)
      | "sqrt" => optFe (Fp.sqrt x)
      | _ => "bad-op"
  | ["fp.bin", "pow", a, e] =>
    match parseFe a, Bytes.ofHex e with
    | some x, some eb => "ok " ++ fe (Fp.pow x (Bytes.toNatLE eb))
    | _, _ => "bad-op"
  | ["fp.bin", op, a, b] =>
    match parseFe a, parseFe b with
    | some x, some y =>
      match op with
      | "add" => "ok " ++ fe (Fp.add x y)
      | "sub" => "ok " ++ fe (Fp.sub x y)
      | "mul" => "ok " ++ fe (Fp.mul x y)
      | "sqrt_ratio" =>
        match Fp.sqrtRatio x y with
        | some (c, r) => s!"ok {if c then 1 else 0} " ++ fe r
        | none => "panic"
      | _ => "bad-op"
    | _, _ => "bad-op"
  | ["fp.from_repr", h] =>
    match Bytes.ofHex h with
    | some bs => optFe (Fp.fromRepr bs)
    | none => "bad-op"
  | ["fp.random", ws] =>
    match parseWords ws with
    | some w =>
      match Fp.random listNext fuel w with
      | some (rest, v) => "ok " ++ fe v ++ s!" {w.length - rest.length}"
      | none => "fuel"
    | none => "bad-op"
  | ["fp.from_u64", n] =>
    match n.toNat? with
    | some v => "ok " ++ fe (v % Fp.p)
    | none => "bad-op"
  | _ => "bad-op"

def showOutcomeBytes : Outcome Bytes → String
  | .ok b => "ok " ++ Bytes.toHexP b
  | .err _ => "err"
  | .panic _ => "panic"

def nextShares (polys : List (List Nat)) : Nat → Nat → List Sharks.Share
  | 0, _ => []
  | n + 1, x => let r := Sharks.nextShare polys x; r.2 :: nextShares polys n r.1

def genShares (polys : List (List Nat)) : Nat → List Nat → Option (List Sharks.Share)
  | 0, _ => some []
  | n + 1, g =>
    match Sharks.gen listNext fuel polys g with
    | none => none
    | some (g1, s) => (genShares polys n g1).map (s :: ·)

def parseSharksShares (s : String) : Option (List Sharks.Share) :=
  (parseHexList s).bind fun l => l.mapM Sharks.shareFromBytes

def handleSharks (toks : List String) : String :=
  match toks with
  | ["sharks.deal", t, secret, ws, nnext, ngen] =>
    match t.toNat?, Bytes.ofHex secret, parseWords ws, nnext.toNat?, ngen.toNat? with
    | some t, some sec, some w, some nn, some ng =>
      match Sharks.dealerRng listNext fuel t sec w with
      | none => "fuel"
      | some (.err _) => "err"
      | some (.panic _) => "panic"
      | some (.ok (g, polys)) =>
        match genShares polys ng g with
        | none => "fuel"
        | some gs =>
          let all := nextShares polys nn 0 ++ gs
          "ok " ++ (if all.isEmpty then "-" else hexs (all.map Sharks.shareToBytes))
    | _, _, _, _, _ => "bad-op"
  | ["sharks.recover", t, shares] =>
    match t.toNat?, parseSharksShares shares with
    | some t, some sh => showOutcomeBytes (Sharks.recover t sh)
    | _, _ => "bad-op"
  | ["sharks.recover", t] =>
    match t.toNat? with
    | some t => showOutcomeBytes (Sharks.recover t [])
    | none => "bad-op"
  | _ => "bad-op"

def parseTranscript (s : String) : Option (Option Strobe) :=
  if s = "-" then some none
  else
    match s.splitOn "|" with
    | [] => none
    | proto :: toks =>
      match Bytes.ofHex proto, toks.mapM parseStrobeOp with
      | some p, some ops => some (some (Strobe.runOps kF (Strobe.new kF p) ops).1)
      | _, _ => none

def parseAdssShares (s : String) : Option (List Adss.Share) :=
  (parseHexList s).bind fun l => l.mapM fun b =>
    match Adss.Share.fromBytes b with
    | .ok sh => some sh
    | _ => none

def showShareOutcome : Option (Outcome Adss.Share) → String
  | none => "fuel"
  | some (.ok sh) => "ok " ++ Bytes.toHexP sh.toBytes
  | some (.err _) => "err"
  | some (.panic _) => "panic"

def handleAdss (toks : List String) : String :=
  match toks with
  | ["adss.share", t, m, r, tr, x] =>
    match t.toNat?, Bytes.ofHex m, Bytes.ofHex r, parseTranscript tr, parseFe x with
    | some t, some m, some r, some tr, some x => showShareOutcome (Adss.share kF fuel tr t m r x)
    | _, _, _, _, _ => "bad-op"
  | ["adss.recover", shares] =>
    match parseAdssShares shares with
    | some sh =>
      match Adss.recover kF sh with
      | .ok c => "ok " ++ Bytes.toHexP c.M
      | .err _ => "err"
      | .panic _ => "panic"
    | none => "bad-op"
  | ["adss.recover"] =>
    match Adss.recover kF [] with
    | .ok c => "ok " ++ Bytes.toHexP c.M
    | .err _ => "err"
    | .panic _ => "panic"
  | _ => "bad-op"

def parseAux (s : String) : Option (Option Bytes) :=
  if s = "none" then some none
  else match s.splitOn ":" with
    | ["some", h] => (Bytes.ofHex h).map some
    | _ => none

def parseMessages (s : String) : Option (List Star.Message) :=
  (parseHexList s).bind fun l => l.mapM fun b =>
    match Star.Message.fromBytes b with
    | .ok m => some m
    | _ => none

def handleStar (toks : List String) : String :=
  match toks with
  | ["digest", label, key, ads] =>
    match Bytes.ofHex label, Bytes.ofHex key, parseHexList ads with
    | some l, some k, some a => "ok " ++ Bytes.toHexP (Star.strobeDigest kF k a (String.fromUTF8! ⟨l.toArray⟩))
    | _, _, _ => "bad-op"
  | ["star.local", m, e, t] =>
    match Bytes.ofHex m, Bytes.ofHex e, t.toNat? with
    | some m, some e, some t => "ok " ++ Bytes.toHexP (Star.sampleLocalRandomness kF m e t)
    | _, _, _ => "bad-op"
  | ["star.ske", r, e] =>
    match Bytes.ofHex r, Bytes.ofHex e with
    | some r, some e => "ok " ++ Bytes.toHexP (Star.deriveSkeKey kF r e)
    | _, _ => "bad-op"
  | ["star.encrypt", k, d] =>
    match Bytes.ofHex k, Bytes.ofHex d with
    | some k, some d => "ok " ++ Bytes.toHexP (Star.encrypt kF k d Params.starEncryptLabel)
    | _, _ => "bad-op"
  | ["star.decrypt", k, d] =>
    match Bytes.ofHex k, Bytes.ofHex d with
    | some k, some d => "ok " ++ Bytes.toHexP (Star.decrypt kF k d Params.starEncryptLabel)
    | _, _ => "bad-op"
  | ["star.generate", m, e, t, rnd, aux, x] =>
    match Bytes.ofHex m, Bytes.ofHex e, t.toNat?, Bytes.ofHex rnd, parseAux aux, parseFe x with
    | some m, some e, some t, some rnd, some aux, some x =>
      match Star.generate kF fuel m e t rnd aux x with
      | none => "fuel"
      | some (.ok msg) => "ok " ++ Bytes.toHexP msg.toBytes
      | some (.err _) => "err"
      | some (.panic _) => "panic"
    | _, _, _, _, _, _ => "bad-op"
  | ["star.swlr", m, e, t, x] =>
    match Bytes.ofHex m, Bytes.ofHex e, t.toNat?, parseFe x with
    | some m, some e, some t, some x =>
      match Star.shareWithLocalRandomness kF fuel m e t x with
      | none => "fuel"
      | some (.ok (k, sh, tag)) => "ok " ++ hexs [k, sh.toBytes, tag]
      | some (.err _) => "err"
      | some (.panic _) => "panic"
    | _, _, _, _ => "bad-op"
  | ["star.recover", e, msgs] =>
    match Bytes.ofHex e, parseMessages msgs with
    | some e, some ms =>
      match Star.shareRecover kF (ms.map (·.share)) with
      | .ok c =>
        let key := Star.deriveSkeKey kF c.M e
        "ok " ++ Bytes.toHexP c.M ++ " " ++ hexs (ms.map fun m => Star.decrypt kF key m.ciphertext Params.starEncryptLabel)
      | .err _ => "err"
      | .panic _ => "panic"
    | _, _ => "bad-op"
  | _ => "bad-op"

def handleWire (toks : List String) : String :=
  match toks with
  | [op, h] =>
    match Bytes.ofHex h with
    | none => "bad-op"
    | some bs =>
      match op with
      | "wire.sharks" =>
        match Sharks.shareFromBytes bs with
        | some s => "ok " ++ Bytes.toHexP (Sharks.shareToBytes s)
        | none => "err"
      | "wire.adss" =>
        match Adss.Share.fromBytes bs with
        | .ok s => "ok " ++ Bytes.toHexP s.toBytes
        | .err _ => "err"
        | .panic _ => "panic"
      | "wire.msg" =>
        match Star.Message.fromBytes bs with
        | .ok s => "ok " ++ Bytes.toHexP s.toBytes
        | .err _ => "err"
        | .panic _ => "panic"
      | "wire.load_bytes" => showOutcomeBytes (Adss.loadBytes bs)
      | "wire.load_u32" =>
        match Adss.loadU32 bs with
        | some n => s!"ok {n}"
        | none => "err"
      | "wire.store_bytes" => "ok " ++ Bytes.toHexP (Adss.storeBytes bs)
      | _ => "bad-op"
  | _ => "bad-op"

def parseGgmOp (tok : String) : Option Ggm.Op :=
  match tok.splitOn ":" with
  | ["e", h] => (Bytes.ofHex h).map .eval
  | ["p", h] => (Bytes.ofHex h).map .puncture
  | _ => none

def parseGgmOps (s : String) : Option (List Ggm.Op) :=
  if s = "-" ∨ s = "" then some [] else (s.splitOn ",").mapM parseGgmOp

def ggmErr : Ggm.Err → String
  | .noPrefixFound => "NoPrefixFound"
  | .alreadyPunctured => "AlreadyPunctured"
  | .badInputLength => "BadInputLength"
  | .unexpectedEndOfBv => "UnexpectedEndOfBv"

def ggmOut : Ggm.Out Bytes → String
  | .evalRes (.ok v) => "ok:" ++ Bytes.toHexP v
  | .evalRes (.error e) => "err:" ++ ggmErr e
  | .punctRes (.ok _) => "ok"
  | .punctRes (.error e) => "err:" ++ ggmErr e

def bitsStr (b : Ggm.Bits) : String := String.ofList (b.map fun x => if x then '1' else '0')

def ggmDump (k : Ggm.Key Bytes) : String :=
  String.intercalate "|" (k.prefixes.map fun ps => bitsStr ps.1 ++ ":" ++ Bytes.toHexP ps.2)
    ++ "#" ++ String.intercalate "|" (k.punctured.map bitsStr)

/-- a whole history on the model (`Ggm.run`, the function the C10/C11 theorems are about) with the
two STROBE PRGs of the implementation's key and its two first-level seeds -/
def handleGgm (toks : List String) : String :=
  match toks with
  | ["ggm.hist", k0, k1, s0, s1, ops] =>
    match Bytes.ofHex k0, Bytes.ofHex k1, Bytes.ofHex s0, Bytes.ofHex s1, parseGgmOps ops with
    | some k0, some k1, some s0, some s1, some ops =>
      let r := Ggm.run (Ggm.strobeG kF k0 k1) Params.ggmInpLen (Ggm.initKey s0 s1) ops
      "ok " ++ String.intercalate ";" (r.2.map ggmOut ++ [ggmDump r.1])
    | _, _, _, _, _ => "bad-op"
  | _ => "bad-op"

def handle (toks : List String) : String :=
  match toks with
  | ["keccak", h] =>
    match Bytes.ofHex h with
    | some st => "ok " ++ Bytes.toHexP (kF st)
    | none => "bad-op"
  | "strobe" :: proto :: ops => handleStrobe proto ops
  | ["rng", proto, key, sizes] =>
    match Bytes.ofHex proto, Bytes.ofHex key, parseNatList sizes with
    | some p, some k, some ns =>
      "ok " ++ hexs (rngFills ⟨Strobe.key kF (Strobe.new kF p) k⟩ ns)
    | _, _, _ => "bad-op"
  | op :: _ =>
    if op.startsWith "fp." then handleFp toks
    else if op.startsWith "sharks." then handleSharks toks
    else if op.startsWith "adss." then handleAdss toks
    else if op.startsWith "star." ∨ op = "digest" then handleStar toks
    else if op.startsWith "wire." then handleWire toks
    else if op.startsWith "ggm." then handleGgm toks
    else "bad-op"
  | _ => "bad-op"

partial def loop (h : IO.FS.Stream) (out : IO.FS.Stream) : IO Unit := do
  let line ← h.getLine
  if line.isEmpty then return ()
  let l := line.trimAscii.toString
  if l.isEmpty then
    out.putStrLn ""
  else
    out.putStrLn (handle (l.splitOn " "))
  loop h out

def main : IO Unit := do
  let stdin ← IO.getStdin
  let stdout ← IO.getStdout
  loop stdin stdout
