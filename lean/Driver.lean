/-
Line-protocol driver: one request per line on stdin, one canonical answer per line on stdout.
The same request lines are produced by the Rust harness together with the implementation's
answers; `tools/run_check.py` diffs the two answer streams.
-/
import StarModel
open StarModel

def kF : Perm := Keccak.keccakF

def hexs (l : List Bytes) : String := String.intercalate "," (l.map Bytes.toHexP)

def parseHexList (s : String) : Option (List Bytes) :=
  if s = "" then some [] else (s.splitOn ",").mapM Bytes.ofHex

def parseNatList (s : String) : Option (List Nat) :=
  if s = "-" ∨ s = "" then some [] else (s.splitOn ",").mapM String.toNat?

def parseStrobeOp (tok : String) : Option Strobe.Op :=
  match tok.splitOn ":" with
  | ["ad", h] => (Bytes.ofHex h).map .ad
  | ["mad", h] => (Bytes.ofHex h).map .metaAd
  | ["key", h] => (Bytes.ofHex h).map .key
  | ["prf", n] => n.toNat?.map .prf
  | ["senc", h] => (Bytes.ofHex h).map .sendEnc
  | ["renc", h] => (Bytes.ofHex h).map .recvEnc
  | ["smac", n] => n.toNat?.map .sendMac
  | ["rmac", h] => (Bytes.ofHex h).map .recvMac
  | _ => none

def showStrobeOut (op : Strobe.Op) (out : Bytes) : String :=
  match op with
  | .ad _ | .metaAd _ | .key _ => "-"
  | .recvMac _ => if out.all (· == 0) then "T" else "F"
  | _ => Bytes.toHexP out

def handleStrobe (proto : String) (toks : List String) : String :=
  match Bytes.ofHex proto, toks.mapM parseStrobeOp with
  | some p, some ops =>
    let r := Strobe.runOps kF (Strobe.new kF p) ops
    "ok " ++ String.intercalate "," (List.zipWith showStrobeOut ops r.2)
  | _, _ => "bad-op"

def rngFills (g : StrobeRng) : List Nat → List Bytes
  | [] => []
  | n :: ns => let r := StrobeRng.fillBytes kF g n; r.2 :: rngFills r.1 ns

/-- scripted RNG of the harness: a list of words, consumed from the front -/
def listNext (ws : List Nat) : List Nat × Nat :=
  match ws with
  | [] => ([], 0)
  | w :: r => (r, w)

/-- SplitMix64, the harness' seeded generator (`util::Sm::next`) -/
def smNext (st : UInt64) : UInt64 × Nat :=
  let st := st + 0x9e3779b97f4a7c15
  let z := st
  let z := (z ^^^ (z >>> 30)) * 0xbf58476d1ce4e5b9
  let z := (z ^^^ (z >>> 27)) * 0x94d049bb133111eb
  (st, (z ^^^ (z >>> 31)).toNat)

def parseHexNat (s : String) : Option Nat :=
  s.toList.foldlM (fun acc c => (Bytes.hexVal c).map (fun d => 16 * acc + d)) 0

def parseWords (s : String) : Option (List Nat) :=
  if s = "-" ∨ s = "" then some [] else (s.splitOn ",").mapM parseHexNat

def natToHex (n : Nat) : String := String.ofList (Nat.toDigits 16 n)

def fuel : Nat := 512

def fe (n : Nat) : String := Bytes.toHexP (Fp.toRepr n)

def parseFe (s : String) : Option Nat := (Bytes.ofHex s).bind Fp.fromRepr

def fpConst (n : String) : String :=
  match n with
  | "MODULUS" => "ok " ++ natToHex Fp.p
  | "NUM_BITS" => s!"ok {Fp.numBits}"
  | "CAPACITY" => s!"ok {Fp.capacity}"
  | "S" => s!"ok {Fp.twoAdicity}"
  | "ZERO" => "ok " ++ fe 0
  | "ONE" => "ok " ++ fe (1 % Fp.p)
  | "TWO_INV" => "ok " ++ fe Fp.twoInv
  | "MULTIPLICATIVE_GENERATOR" => "ok " ++ fe Fp.multiplicativeGenerator
  | "ROOT_OF_UNITY" => "ok " ++ fe Fp.rootOfUnity
  | "ROOT_OF_UNITY_INV" => "ok " ++ fe Fp.rootOfUnityInv
  | "DELTA" => "ok " ++ fe Fp.delta
  | "FIELD_ELEMENT_LEN" => s!"ok {Params.fieldElementLen}"
  | _ => "bad-op"

def optFe : Option Nat → String
  | some v => "ok " ++ fe v
  | none => "err"

def handleFp (toks : List String) : String :=
  match toks with
  | ["fp.const", n] => fpConst n
  | ["fp.un", op, a] =>
    match parseFe a with
    | none => "bad-op"
    | some x =>
      match op with
      | "neg" => "ok " ++ fe (Fp.neg x)
      | "double" => "ok " ++ fe (Fp.double x)
      | "square" => "ok " ++ fe (Fp.square x)
      | "invert" => optFe (Fp.invert x)
      | "sqrt" => optFe (Fp.sqrt x)
      | _ => "bad-op"
  | ["fp.bin", "pow", a, e] =>
    match parseFe a, Bytes.ofHex e with
    | some x, some eb => "ok " ++ fe (Fp.pow x (Bytes.toNatLE eb))
    | _, _ => "bad-op"
  | ["fp.bin", op, a, b] =>
    match parseFe a, parseFe b with
    | some x, some y =>
      match op with
      | "add" => "ok " ++ fe (Fp.add x y)
      | "sub" => "ok " ++ fe (Fp.sub x y)
      | "mul" => "ok " ++ fe (Fp.mul x y)
      | "sqrt_ratio" =>
        match Fp.sqrtRatio x y with
        | some (c, r) => s!"ok {if c then 1 else 0} " ++ fe r
        | none => "panic"
      | _ => "bad-op"
    | _, _ => "bad-op"
  | ["fp.from_repr", h] =>
    match Bytes.ofHex h with
    | some bs => optFe (Fp.fromRepr bs)
    | none => "bad-op"
  | ["fp.random", ws] =>
    match parseWords ws with
    | some w =>
      match Fp.random listNext fuel w with
      | some (rest, v) => "ok " ++ fe v ++ s!" {w.length - rest.length}"
      | none => "fuel"
    | none => "bad-op"
  | ["fp.from_u64", n] =>
    match n.toNat? with
    | some v => "ok " ++ fe (v % Fp.p)
    | none => "bad-op"
  | _ => "bad-op"

def showOutcomeBytes : Outcome Bytes → String
  | .ok b => "ok " ++ Bytes.toHexP b
  | .err _ => "err"
  | .panic _ => "panic"

def nextShares (polys : List (List Nat)) : Nat → Nat → List Sharks.Share
  | 0, _ => []
  | n + 1, x => let r := Sharks.nextShare polys x; r.2 :: nextShares polys n r.1

def genShares (polys : List (List Nat)) : Nat → List Nat → Option (List Sharks.Share)
  | 0, _ => some []
  | n + 1, g =>
    match Sharks.gen listNext fuel polys g with
    | none => none
    | some (g1, s) => (genShares polys n g1).map (s :: ·)

def parseSharksShares (s : String) : Option (List Sharks.Share) :=
  (parseHexList s).bind fun l => l.mapM Sharks.shareFromBytes

def handleSharks (toks : List String) : String :=
  match toks with
  | ["sharks.deal", t, secret, ws, nnext, ngen] =>
    match t.toNat?, Bytes.ofHex secret, parseWords ws, nnext.toNat?, ngen.toNat? with
    | some t, some sec, some w, some nn, some ng =>
      match Sharks.dealerRng listNext fuel t sec w with
      | none => "fuel"
      | some (.err _) => "err"
      | some (.panic _) => "panic"
      | some (.ok (g, polys)) =>
        match genShares polys ng g with
        | none => "fuel"
        | some gs =>
          let all := nextShares polys nn 0 ++ gs
          "ok " ++ (if all.isEmpty then "-" else hexs (all.map Sharks.shareToBytes))
    | _, _, _, _, _ => "bad-op"
  | ["sharks.dealsm", t, secret, sd, nnext] =>
    match t.toNat?, Bytes.ofHex secret, sd.toNat?, nnext.toNat? with
    | some t, some sec, some sd, some nn =>
      match Sharks.dealerRng smNext fuel t sec (UInt64.ofNat sd) with
      | none => "fuel"
      | some (.err _) => "err"
      | some (.panic _) => "panic"
      | some (.ok (_, polys)) => "ok " ++ hexs ((nextShares polys nn 0).map Sharks.shareToBytes)
    | _, _, _, _ => "bad-op"
  | ["sharks.iter", t, secret, sd, pats] =>
    match t.toNat?, Bytes.ofHex secret, sd.toNat? with
    | some t, some sec, some sd =>
      match Sharks.dealerRng smNext fuel t sec (UInt64.ofNat sd) with
      | none => "fuel"
      | some (.err _) => "err"
      | some (.panic _) => "panic"
      | some (.ok (_, polys)) =>
        -- positions the std Iterator adaptors visit, counted in calls of `next` (1-based)
        let step := fun (acc : Nat × List Nat) (tok : String) =>
          let (pos, out) := acc
          match tok.splitOn ":" with
          | ["next"] => (pos + 1, out ++ [pos + 1])
          | ["nth", n] => let n := n.toNat!; (pos + n + 1, out ++ [pos + n + 1])
          | ["skip", n, c] =>
            let n := n.toNat!; let c := c.toNat!
            (pos + n + c, out ++ (List.range c).map (fun i => pos + n + i + 1))
          | ["step", st, c] =>
            let st := st.toNat!; let c := c.toNat!
            -- StepBy: first item is the next one, every further item `st` positions later
            (pos + 1 + (c - 1) * st, out ++ (List.range c).map (fun i => pos + 1 + i * st))
          | ["take", c] => let c := c.toNat!; (pos + c, out ++ (List.range c).map (fun i => pos + i + 1))
          | _ => (pos, out)
        let xs := ((pats.splitOn ",").foldl step (0, [])).2
        "ok " ++ hexs (xs.map fun n => Sharks.shareToBytes (Sharks.evaluate polys (n % Fp.p)))
    | _, _, _ => "bad-op"
  | ["sharks.interp", shares] =>
    -- the public free function `interpolate` on the shares exactly as given (no dedup, no checks)
    match parseSharksShares shares with
    | some sh => showOutcomeBytes (Sharks.interpolate sh)
    | none => "bad-op"
  | ["sharks.interp"] => showOutcomeBytes (Sharks.interpolate [])
  | ["sharks.rpoly", s, k, sd] =>
    match (Bytes.ofHex s).bind Fp.fromRepr, k.toNat?, sd.toNat? with
    | some s, some k, some sd =>
      match Sharks.randomPolynomial smNext fuel s k (UInt64.ofNat sd) with
      | none => "fuel"
      | some (_, cs) => "ok " ++ hexs (cs.map Fp.toRepr)
    | _, _, _ => "bad-op"
  | ["sharks.geteval", polys, n] =>
    -- `get_evaluator(polys)` then `n` times `next`; polynomials separated by `|`
    match (polys.splitOn "|").mapM (fun p => (parseHexList p).bind fun l => l.mapM Fp.fromRepr), n.toNat? with
    | some ps, some n => "ok " ++ hexs ((nextShares ps n 0).map Sharks.shareToBytes)
    | _, _ => "bad-op"
  | ["sharks.recover", t, shares] =>
    match t.toNat?, parseSharksShares shares with
    | some t, some sh => showOutcomeBytes (Sharks.recover t sh)
    | _, _ => "bad-op"
  | ["sharks.recover", t] =>
    match t.toNat? with
    | some t => showOutcomeBytes (Sharks.recover t [])
    | none => "bad-op"
  | _ => "bad-op"

def parseTranscript (s : String) : Option (Option Strobe) :=
  if s = "-" then some none
  else
    match s.splitOn "|" with
    | [] => none
    | proto :: toks =>
      match Bytes.ofHex proto, toks.mapM parseStrobeOp with
      | some p, some ops => some (some (Strobe.runOps kF (Strobe.new kF p) ops).1)
      | _, _ => none

def parseAdssShares (s : String) : Option (List Adss.Share) :=
  (parseHexList s).bind fun l => l.mapM fun b =>
    match Adss.Share.fromBytes b with
    | .ok sh => some sh
    | _ => none

def showShareOutcome : Option (Outcome Adss.Share) → String
  | none => "fuel"
  | some (.ok sh) => "ok " ++ Bytes.toHexP sh.toBytes
  | some (.err _) => "err"
  | some (.panic _) => "panic"

def handleAdss (toks : List String) : String :=
  match toks with
  | ["adss.share", t, m, r, tr, x] =>
    match t.toNat?, Bytes.ofHex m, Bytes.ofHex r, parseTranscript tr, parseFe x with
    | some t, some m, some r, some tr, some x => showShareOutcome (Adss.share kF fuel tr t m r x)
    | _, _, _, _, _ => "bad-op"
  | ["adss.recover", shares] =>
    match parseAdssShares shares with
    | some sh =>
      match Adss.recover kF sh with
      | .ok c => "ok " ++ Bytes.toHexP c.M
      | .err _ => "err"
      | .panic _ => "panic"
    | none => "bad-op"
  | ["adss.recover"] =>
    match Adss.recover kF [] with
    | .ok c => "ok " ++ Bytes.toHexP c.M
    | .err _ => "err"
    | .panic _ => "panic"
  | _ => "bad-op"

def parseAux (s : String) : Option (Option Bytes) :=
  if s = "none" then some none
  else match s.splitOn ":" with
    | ["some", h] => (Bytes.ofHex h).map some
    | _ => none

def parseMessages (s : String) : Option (List Star.Message) :=
  (parseHexList s).bind fun l => l.mapM fun b =>
    match Star.Message.fromBytes b with
    | .ok m => some m
    | _ => none

def handleStar (toks : List String) : String :=
  match toks with
  | ["digest", label, key, ads] =>
    match Bytes.ofHex label, Bytes.ofHex key, parseHexList ads with
    | some l, some k, some a => "ok " ++ Bytes.toHexP (Star.strobeDigest kF k a (String.fromUTF8! ⟨l.toArray⟩))
    | _, _, _ => "bad-op"
  | ["star.local", m, e, t] =>
    match Bytes.ofHex m, Bytes.ofHex e, t.toNat? with
    | some m, some e, some t => "ok " ++ Bytes.toHexP (Star.sampleLocalRandomness kF m e t)
    | _, _, _ => "bad-op"
  | ["star.ske", r, e] =>
    match Bytes.ofHex r, Bytes.ofHex e with
    | some r, some e => "ok " ++ Bytes.toHexP (Star.deriveSkeKey kF r e)
    | _, _ => "bad-op"
  | ["star.encrypt", k, d] =>
    match Bytes.ofHex k, Bytes.ofHex d with
    | some k, some d => "ok " ++ Bytes.toHexP (Star.encrypt kF k d Params.starEncryptLabel)
    | _, _ => "bad-op"
  | ["star.decrypt", k, d] =>
    match Bytes.ofHex k, Bytes.ofHex d with
    | some k, some d => "ok " ++ Bytes.toHexP (Star.decrypt kF k d Params.starEncryptLabel)
    | _, _ => "bad-op"
  | ["star.generate", m, e, t, rnd, aux, x] =>
    match Bytes.ofHex m, Bytes.ofHex e, t.toNat?, Bytes.ofHex rnd, parseAux aux, parseFe x with
    | some m, some e, some t, some rnd, some aux, some x =>
      match Star.generate kF fuel m e t rnd aux x with
      | none => "fuel"
      | some (.ok msg) => "ok " ++ Bytes.toHexP msg.toBytes
      | some (.err _) => "err"
      | some (.panic _) => "panic"
    | _, _, _, _, _, _ => "bad-op"
  | ["star.swlr", m, e, t, x] =>
    match Bytes.ofHex m, Bytes.ofHex e, t.toNat?, parseFe x with
    | some m, some e, some t, some x =>
      match Star.shareWithLocalRandomness kF fuel m e t x with
      | none => "fuel"
      | some (.ok (k, sh, tag)) => "ok " ++ hexs [k, sh.toBytes, tag]
      | some (.err _) => "err"
      | some (.panic _) => "panic"
    | _, _, _, _ => "bad-op"
  | ["star.recover", e, msgs] =>
    match Bytes.ofHex e, parseMessages msgs with
    | some e, some ms =>
      match Star.shareRecover kF (ms.map (·.share)) with
      | .ok c =>
        let key := Star.deriveSkeKey kF c.M e
        "ok " ++ Bytes.toHexP c.M ++ " " ++ hexs (ms.map fun m => Star.decrypt kF key m.ciphertext Params.starEncryptLabel)
      | .err _ => "err"
      | .panic _ => "panic"
    | _, _ => "bad-op"
  | _ => "bad-op"

def handleWire (toks : List String) : String :=
  match toks with
  | [op, h] =>
    match Bytes.ofHex h with
    | none => "bad-op"
    | some bs =>
      match op with
      | "wire.sharks" =>
        match Sharks.shareFromBytes bs with
        | some s => "ok " ++ Bytes.toHexP (Sharks.shareToBytes s)
        | none => "err"
      | "wire.adss" =>
        match Adss.Share.fromBytes bs with
        | .ok s => "ok " ++ Bytes.toHexP s.toBytes
        | .err _ => "err"
        | .panic _ => "panic"
      | "wire.msg" =>
        match Star.Message.fromBytes bs with
        | .ok s => "ok " ++ Bytes.toHexP s.toBytes
        | .err _ => "err"
        | .panic _ => "panic"
      | "wire.load_bytes" => showOutcomeBytes (Adss.loadBytes bs)
      | "wire.load_u32" =>
        match Adss.loadU32 bs with
        | some n => s!"ok {n}"
        | none => "err"
      | "wire.store_bytes" => "ok " ++ Bytes.toHexP (Adss.storeBytes bs)
      | _ => "bad-op"
  | _ => "bad-op"

def parseGgmOp (tok : String) : Option Ggm.Op :=
  match tok.splitOn ":" with
  | ["e", h] => (Bytes.ofHex h).map .eval
  | ["p", h] => (Bytes.ofHex h).map .puncture
  | _ => none

def parseGgmOps (s : String) : Option (List Ggm.Op) :=
  if s = "-" ∨ s = "" then some [] else (s.splitOn ",").mapM parseGgmOp

def ggmErr : Ggm.Err → String
  | .noPrefixFound => "NoPrefixFound"
  | .alreadyPunctured => "AlreadyPunctured"
  | .badInputLength => "BadInputLength"
  | .unexpectedEndOfBv => "UnexpectedEndOfBv"

def ggmOut : Ggm.Out Bytes → String
  | .evalRes (.ok v) => "ok:" ++ Bytes.toHexP v
  | .evalRes (.error e) => "err:" ++ ggmErr e
  | .punctRes (.ok _) => "ok"
  | .punctRes (.error e) => "err:" ++ ggmErr e

def bitsStr (b : Ggm.Bits) : String := String.ofList (b.map fun x => if x then '1' else '0')

def ggmDump (k : Ggm.Key Bytes) : String :=
  String.intercalate "|" (k.prefixes.map fun ps => bitsStr ps.1 ++ ":" ++ Bytes.toHexP ps.2)
    ++ "#" ++ String.intercalate "|" (k.punctured.map bitsStr)

/-- a whole history on the model (`Ggm.run`, the function the C10/C11 theorems are about) with the
two STROBE PRGs of the implementation's key and its two first-level seeds -/
def handleGgm (toks : List String) : String :=
  match toks with
  | ["ggm.hist", k0, k1, s0, s1, ops] =>
    match Bytes.ofHex k0, Bytes.ofHex k1, Bytes.ofHex s0, Bytes.ofHex s1, parseGgmOps ops with
    | some k0, some k1, some s0, some s1, some ops =>
      let r := Ggm.run (Ggm.strobeG kF k0 k1) Params.ggmInpLen (Ggm.initKey s0 s1) ops
      "ok " ++ String.intercalate ";" (r.2.map ggmOut ++ [ggmDump r.1])
    | _, _, _, _, _ => "bad-op"
  | _ => "bad-op"

/-! ### scalars mod ℓ, ristretto255, PPOPRF -/

def rops : GroupOps Ristretto.Point := Ristretto.ops

def parseScalar (s : String) : Option Nat := (Bytes.ofHex s).bind Scalar25519.fromCanonicalBytes

def sc (n : Nat) : String := Bytes.toHex (Scalar25519.toBytes n)

def handleScalar (toks : List String) : String :=
  match toks with
  | ["sc.bin", op, a, b] =>
    match parseScalar a, parseScalar b with
    | some x, some y =>
      match op with
      | "add" => "ok " ++ sc (Scalar25519.add x y)
      | "sub" => "ok " ++ sc (Scalar25519.sub x y)
      | "mul" => "ok " ++ sc (Scalar25519.mul x y)
      | _ => "bad-op"
    | _, _ => "bad-op"
  | ["sc.un", op, a] =>
    match parseScalar a with
    | some x =>
      match op with
      | "neg" => "ok " ++ sc (Scalar25519.neg x)
      | "invert" => "ok " ++ sc (Scalar25519.invert x)
      | _ => "bad-op"
    | none => "bad-op"
  | ["sc.fbmo", h] =>
    match Bytes.ofHex h with
    | some bs => "ok " ++ sc (Scalar25519.fromBytesModOrder bs)
    | none => "bad-op"
  | ["sc.wide", h] =>
    match Bytes.ofHex h with
    | some bs => "ok " ++ sc (Scalar25519.fromBytesModOrderWide bs)
    | none => "bad-op"
  | ["sc.canon", h] =>
    match Bytes.ofHex h with
    | some bs =>
      match Scalar25519.fromCanonicalBytes bs with
      | some v => "ok " ++ sc v
      | none => "err"
    | none => "bad-op"
  | _ => "bad-op"

def parsePoint (s : String) : Option Ristretto.Point := (Bytes.ofHex s).bind Ristretto.decompress

def parsePoints (s : String) : Option (List Ristretto.Point) :=
  if s = "-" ∨ s = "" then some [] else (s.splitOn ",").mapM parsePoint

def pt (P : Ristretto.Point) : String := Bytes.toHex (Ristretto.compress P)

def tf (b : Bool) : String := if b then "ok T" else "ok F"

def handleRistretto (toks : List String) : String :=
  match toks with
  | ["ris.id"] => "ok " ++ pt Ristretto.identity
  | ["ris.dec", h] =>
    match Bytes.ofHex h with
    | some bs =>
      match Ristretto.decompress bs with
      | some P => "ok " ++ pt P
      | none => "err"
    | none => "bad-op"
  | ["ris.add", a, b] =>
    match parsePoint a, parsePoint b with
    | some P, some Q => "ok " ++ pt (Ristretto.add P Q)
    | _, _ => "bad-op"
  | ["ris.sub", a, b] =>
    match parsePoint a, parsePoint b with
    | some P, some Q => "ok " ++ pt (Ristretto.sub P Q)
    | _, _ => "bad-op"
  | ["ris.neg", a] =>
    match parsePoint a with
    | some P => "ok " ++ pt (Ristretto.neg P)
    | none => "bad-op"
  | ["ris.dbl", a] =>
    match parsePoint a with
    | some P => "ok " ++ pt (Ristretto.double P)
    | none => "bad-op"
  | ["ris.mul", k, a] =>
    match parseScalar k, parsePoint a with
    | some k, some P => "ok " ++ pt (Ristretto.scalarMul k P)
    | _, _ => "bad-op"
  | ["ris.mulb", kb, a] =>
    match Bytes.ofHex kb, parsePoint a with
    | some kb, some P => "ok " ++ pt (Ristretto.scalarMul (Scalar25519.fromBytesModOrder kb) P)
    | _, _ => "bad-op"
  | ["ris.base", k] =>
    match parseScalar k with
    | some k => "ok " ++ pt (Ristretto.scalarMul k Ristretto.basepoint)
    | none => "bad-op"
  | ["ris.lin", k1, a, k2, b] =>
    match parseScalar k1, parsePoint a, parseScalar k2, parsePoint b with
    | some k1, some P, some k2, some Q =>
      "ok " ++ pt (Ristretto.add (Ristretto.scalarMul k1 P) (Ristretto.scalarMul k2 Q))
    | _, _, _, _ => "bad-op"
  | ["ris.uni", h] =>
    match Bytes.ofHex h with
    | some bs => "ok " ++ pt (Ristretto.fromUniformBytes bs)
    | none => "bad-op"
  | ["ris.unimul", h, k] =>
    match Bytes.ofHex h, parseScalar k with
    | some bs, some k => "ok " ++ pt (Ristretto.scalarMul k (Ristretto.fromUniformBytes bs))
    | _, _ => "bad-op"
  | ["ris.unieq", h1, h2, k] =>
    -- equality of internal representatives that did not come from `decompress`
    match Bytes.ofHex h1, Bytes.ofHex h2, parseScalar k with
    | some b1, some b2, some k =>
      let P := Ristretto.scalarMul k (Ristretto.fromUniformBytes b1)
      let Q := Ristretto.fromUniformBytes b2
      let R := Ristretto.sub (Ristretto.add P Q) Q
      if Ristretto.eq P R != Ristretto.ctEq P R ∨ Ristretto.eq P Q != Ristretto.ctEq P Q then "eq-mismatch"
      else (if Ristretto.eq P R then "ok T" else "ok F") ++ (if Ristretto.eq P Q then " T" else " F")
    | _, _, _ => "bad-op"
  | ["ris.eq", a, b] =>
    match parsePoint a, parsePoint b with
    | some P, some Q =>
      if Ristretto.eq P Q != Ristretto.ctEq P Q then "eq-mismatch" else tf (Ristretto.eq P Q)
    | _, _ => "bad-op"
  | _ => "bad-op"

def showErrKind {α : Type} (f : α → String) : Outcome α → String
  | .ok a => f a
  | .err k => "err:" ++ k
  | .panic _ => "panic"

def parseMd (s : String) : Option UInt8 :=
  s.toNat?.bind fun n => if n < 256 then some (UInt8.ofNat n) else none

def parseBool (s : String) : Option Bool :=
  if s = "1" then some true else if s = "0" then some false else none

/-- server material `key:k0:k1:s0:s1:mds` as `Server::new` sampled it -/
def parseSrvSpec (s : String) : Option (Outcome Ppoprf.Server) :=
  match s.splitOn ":" with
  | [key, k0, k1, s0, s1, mds] =>
    match parseScalar key, Bytes.ofHex k0, Bytes.ofHex k1, Bytes.ofHex s0, Bytes.ofHex s1, Bytes.ofHex mds with
    | some key, some k0, some k1, some s0, some s1, some mds =>
      some (Ppoprf.Server.new rops kF key k0 k1 s0 s1 mds)
    | _, _, _, _, _, _ => none
  | _ => none

def pkEntries : Nat → Bytes → Option (List (UInt8 × Bytes))
  | 0, [] => some []
  | 0, _ :: _ => none
  | _ + 1, [] => none
  | n + 1, md :: rest =>
    if rest.length < 32 then none
    else (pkEntries n (rest.drop 32)).map fun l => (md, rest.take 32) :: l

/-- `bincode::deserialize::<ServerPublicKey>` on well-formed input (entries are inserted in
sequence, as serde does for a `BTreeMap`) -/
def parsePkBincode (s : String) : Option Ppoprf.PublicKey :=
  match Bytes.ofHex s with
  | none => none
  | some bs =>
    if bs.length < 40 then none
    else
      let n := Bytes.toNatLE ((bs.drop 32).take 8)
      if n > 256 then none
      else
        (pkEntries n (bs.drop 40)).map fun es =>
          ⟨bs.take 32, es.foldl (fun acc e => Ppoprf.mdInsert e.1 e.2 acc) []⟩

def parseProof (s : String) : Option (Option (Nat × Nat)) :=
  if s = "none" then some none
  else match s.splitOn ":" with
    | [c, z] =>
      match parseScalar c, parseScalar z with
      | some c, some z => some (some (c, z))
      | _, _ => none
    | _ => none

def showEval (r : Bytes × Option (Nat × Nat)) : String :=
  match r.2 with
  | none => Bytes.toHex r.1
  | some (c, s) => Bytes.toHex r.1 ++ " " ++ sc c ++ " " ++ sc s

def parseNonce (s : String) : Option Nat := if s = "-" then some 0 else parseScalar s

def handlePp (toks : List String) : String :=
  match toks with
  | ["pp.blind", input, r] =>
    match Bytes.ofHex input, parseScalar r with
    | some inp, some r => "ok " ++ Bytes.toHex (Ppoprf.Client.blindWith rops kF inp r)
    | _, _ => "bad-op"
  | ["pp.new", spec] =>
    match parseSrvSpec spec with
    | some o => showErrKind (fun srv => "ok " ++ Bytes.toHex srv.getPublicKey.toBincode) o
    | none => "bad-op"
  | ["pp.eval", spec, point, md, v, nonce] =>
    match parseSrvSpec spec, Bytes.ofHex point, parseMd md, parseBool v, parseNonce nonce with
    | some o, some point, some md, some v, some nonce =>
      showErrKind (fun r => "ok " ++ showEval r) (o.bind fun srv => Ppoprf.Server.eval rops kF srv point md v nonce)
    | _, _, _, _, _ => "bad-op"
  | ["pp.verify", pk, inp, out, proof, md] =>
    match parsePkBincode pk, Bytes.ofHex inp, Bytes.ofHex out, parseProof proof, parseMd md with
    | some pk, some inp, some out, some proof, some md =>
      showErrKind tf (Ppoprf.Client.verify rops kF pk inp (out, proof) md)
    | _, _, _, _, _ => "bad-op"
  | ["pp.unblind", point, r] =>
    match Bytes.ofHex point, parseScalar r with
    | some point, some r => showErrKind (fun b => "ok " ++ Bytes.toHex b) (Ppoprf.Client.unblind rops point r)
    | _, _ => "bad-op"
  | ["pp.finalize", input, md, point] =>
    match Bytes.ofHex input, parseMd md, Bytes.ofHex point with
    | some inp, some md, some point => "ok " ++ Bytes.toHex (Ppoprf.Client.finalize kF inp md point)
    | _, _, _ => "bad-op"
  | ["pp.batch", key, pv, ps, qs, r] =>
    match parseScalar key, parsePoint pv, parsePoints ps, parsePoints qs, parseScalar r with
    | some key, some pv, some ps, some qs, some r =>
      showErrKind (fun cs => "ok " ++ sc cs.1 ++ " " ++ sc cs.2) (Ppoprf.newBatch rops kF key pv ps qs r)
    | _, _, _, _, _ => "bad-op"
  | ["pp.vbatch", c, s, pv, ps, qs] =>
    match parseScalar c, parseScalar s, parsePoint pv, parsePoints ps, parsePoints qs with
    | some c, some s, some pv, some ps, some qs =>
      showErrKind tf (Ppoprf.verifyBatch rops kF c s pv ps qs)
    | _, _, _, _, _ => "bad-op"
  | ["pp.proofload", h] =>
    match Bytes.ofHex h with
    | some bs =>
      match Ppoprf.proofFromBincode bs with
      | some (c, s) => "ok " ++ Bytes.toHex (Ppoprf.proofToBincode c s)
      | none => "err"
    | none => "bad-op"
  | _ => "bad-op"

/-- server slots of a history: slot ↦ model server -/
abbrev Slots := List (Nat × Ppoprf.Server)

def slotGet (sl : Slots) (i : Nat) : Option Ppoprf.Server := (sl.find? fun e => e.1 == i).map (·.2)
def slotSet (sl : Slots) (i : Nat) (s : Ppoprf.Server) : Slots := (i, s) :: sl.filter fun e => e.1 != i

/-- one operation of a server history; `none` on a malformed token -/
def srvStep (sl : Slots) (tok : String) : Option (Slots × String) :=
  match tok.splitOn ":" with
  | ["new", slot, key, k0, k1, s0, s1, mds] =>
    match slot.toNat?, parseSrvSpec (String.intercalate ":" [key, k0, k1, s0, s1, mds]) with
    | some i, some (.ok srv) => some (slotSet sl i srv, "n")
    | some _, some (.err k) => some (sl, "e:" ++ k)
    | some _, some (.panic _) => some (sl, "panic")
    | _, _ => none
  | ["ev", slot, md, point, v, nonce] =>
    match slot.toNat?.bind (slotGet sl), parseMd md, Bytes.ofHex point, parseBool v, parseNonce nonce with
    | some srv, some md, some point, some v, some nonce =>
      match Ppoprf.Server.eval rops kF srv point md v nonce with
      | .ok (out, none) => some (sl, Bytes.toHex out)
      | .ok (out, some (c, s)) => some (sl, Bytes.toHex out ++ "/" ++ sc c ++ "/" ++ sc s)
      | .err k => some (sl, "e:" ++ k)
      | .panic _ => some (sl, "panic")
    | _, _, _, _, _ => none
  | ["pu", slot, md] =>
    match slot.toNat?, parseMd md with
    | some i, some md =>
      match slotGet sl i with
      | some srv =>
        match Ppoprf.Server.puncture kF srv md with
        | .ok srv' => some (slotSet sl i srv', "k")
        | .err k => some (sl, "e:" ++ k)
        | .panic _ => some (sl, "panic")
      | none => none
    | _, _ => none
  | [op, src, dst] =>
    -- `cl`: `Server::clone`; `xi`: export + import of the key state into a fresh server.
    -- Both yield a copy of the server value.
    if op = "cl" ∨ op = "xi" then
      match src.toNat?.bind (slotGet sl), dst.toNat? with
      | some srv, some j => some (slotSet sl j srv, if op = "cl" then "c" else "x")
      | _, _ => none
    else none
  | ["pk", slot] =>
    match slot.toNat?.bind (slotGet sl) with
    | some srv => some (sl, Bytes.toHex srv.getPublicKey.toBincode)
    | none => none
  | _ => none

def srvRun : Slots → List String → Option (List String)
  | _, [] => some []
  | sl, tok :: rest =>
    match srvStep sl tok with
    | some (sl', a) => (srvRun sl' rest).map (a :: ·)
    | none => none

def handleSrv (toks : List String) : String :=
  match toks with
  | "srv.hist" :: ops =>
    match srvRun [] ops with
    | some ans => "ok " ++ String.intercalate "," ans
    | none => "bad-op"
  | _ => "bad-op"

def strHex (cs : List Char) : String := Bytes.toHexP (Bytes.ofString (String.ofList cs))

/-- request text: hex of its UTF-8 bytes -/
def parseText (h : String) : Option (List Char) :=
  match Bytes.ofHex h with
  | some bs => (String.fromUTF8? ⟨bs.toArray⟩).map String.toList
  | none => none

def splitPoints : Bytes → List Bytes
  | [] => []
  | b :: bs => (b :: bs).take 32 :: splitPoints ((b :: bs).drop 32)
termination_by bs => bs.length
decreasing_by simp; omega

def parseBits (s : String) : Option Ggm.Bits :=
  s.toList.mapM fun c => if c = '1' then some true else if c = '0' then some false else none

def parseGgmDump (s : String) : Option (Ggm.Key Bytes) :=
  match s.splitOn "#" with
  | [a, b] =>
    let pf : Option (List (Ggm.Bits × Bytes)) :=
      if a = "" then some [] else (a.splitOn "|").mapM fun e =>
        match e.splitOn ":" with
        | [bits, seed] =>
          match parseBits bits, Bytes.ofHex seed with
          | some x, some y => some (x, y)
          | _, _ => none
        | _ => none
    let pu : Option (List Ggm.Bits) := if b = "" then some [] else (b.splitOn "|").mapM parseBits
    match pf, pu with
    | some x, some y => some ⟨x, y⟩
    | _, _ => none
  | _ => none

def showKeyState (ks : Codec.KeyState) : String :=
  "ok " ++ sc ks.oprfKey ++ " " ++ Bytes.toHex ks.publicKey.toBincode ++ " "
    ++ (if ks.prgs.isEmpty then "-" else hexs ks.prgs) ++ " " ++ ggmDump ks.ggm

def handleCodec (toks : List String) : String :=
  match toks with
  | ["cd.ksser", key, pk, prgs, dump] =>
    match parseScalar key, (Bytes.ofHex pk).bind Codec.pkDecode, parseHexList (if prgs = "-" then "" else prgs),
        parseGgmDump dump with
    | some key, some pk, some prgs, some ggm => "ok " ++ Bytes.toHexP (Codec.keyStateToBincode ⟨key, pk, prgs, ggm⟩)
    | _, _, _, _ => "bad-op"
  | ["cd.ksload", h] =>
    match Bytes.ofHex h with
    | some bs =>
      match Codec.keyStateFromBincode bs with
      | some ks => showKeyState ks
      | none => "err"
    | none => "bad-op"
  | ["cd.b64enc", h] =>
    match Bytes.ofHex h with
    | some bs => "ok " ++ strHex (Base64.encodeChars bs)
    | none => "bad-op"
  | ["cd.b64dec", h] =>
    match parseText h with
    | some cs =>
      match Base64.decodeChars cs with
      | some bs => "ok " ++ Bytes.toHexP bs
      | none => "err"
    | none => "bad-op"
  | ["cd.pkser", base, tags, points] =>
    match Bytes.ofHex base, Bytes.ofHex tags, Bytes.ofHex points with
    | some base, some tags, some points =>
      let pk : Ppoprf.PublicKey := ⟨base, tags.zip (splitPoints points)⟩
      "ok " ++ Bytes.toHexP pk.toBincode
    | _, _, _ => "bad-op"
  | ["cd.pkload", h] =>
    match Bytes.ofHex h with
    | some bs => showErrKind (fun pk => "ok " ++ Bytes.toHexP pk.toBincode) (Codec.pkFromBincode bs)
    | none => "bad-op"
  | ["cd.proofload", h] =>
    match Bytes.ofHex h with
    | some bs =>
      showErrKind (fun p => "ok " ++ Bytes.toHexP (Ppoprf.proofToBincode p.1 p.2)) (Codec.proofFromBincodeFull bs)
    | none => "bad-op"
  | ["cd.ptjson", h] =>
    match Bytes.ofHex h with
    | some bs => "ok " ++ strHex (Codec.pointToJsonChars bs)
    | none => "bad-op"
  | ["cd.ptparse", h] =>
    match parseText h with
    | some cs =>
      match Codec.pointFromJsonChars cs with
      | some bs => "ok " ++ Bytes.toHexP bs
      | none => "err"
    | none => "bad-op"
  | ["cd.evjson", out, proof] =>
    match Bytes.ofHex out, parseProof proof with
    | some out, some proof => "ok " ++ strHex (Codec.evaluationToJsonChars out proof)
    | _, _ => "bad-op"
  | ["cd.evparse", h] =>
    match parseText h with
    | some cs =>
      match Codec.evaluationFromJsonChars cs with
      | some (out, proof) => "ok " ++ strHex (Codec.evaluationToJsonChars out proof)
      | none => "err"
    | none => "bad-op"
  | _ => "bad-op"

def parseUtf8 (s : String) : Option String := (Bytes.ofHex s).bind fun b => String.fromUTF8? ⟨b.toArray⟩

def utf8Hex (s : String) : String := Bytes.toHexP (Bytes.ofString s)

def insertSorted (s : String) : List String → List String
  | [] => [s]
  | x :: xs => if s < x then s :: x :: xs else x :: insertSorted s xs

def sortStrings (l : List String) : List String := l.foldr insertSorted []

def showAux : Option Bytes → String
  | none => "none"
  | some a => "some:" ++ Bytes.toHexP a

/-- canonical rendering of the server output: one `m=aux,aux` item per output, items sorted -/
def showOutputs (outs : List (Bytes × List (Option Bytes))) : String :=
  if outs.isEmpty then "ok -"
  else "ok " ++ String.intercalate ";" (sortStrings (outs.map fun o =>
    Bytes.toHexP o.1 ++ "=" ++ String.intercalate "," (o.2.map showAux)))

def handleAgg (toks : List String) : String :=
  match toks with
  | ["wasm.create", m, t, e, x] =>
    match Bytes.ofHex m, t.toNat?, parseUtf8 e, parseFe x with
    | some m, some t, some e, some x =>
      match Wasm.createShareOutcome kF fuel m t e x with
      | none => "fuel"
      | some (.ok s) => "ok " ++ utf8Hex s
      | some (.err _) => "err"
      | some (.panic _) => "panic"
    | _, _, _, _ => "bad-op"
  | ["wasm.group", s, e] =>
    match parseUtf8 s, parseUtf8 e with
    | some s, some e =>
      match Wasm.groupShares kF s e with
      | .ok (some k) => "ok " ++ utf8Hex k
      | .ok none => "none"
      | .err _ => "err"
      | .panic _ => "panic"
    | _, _ => "bad-op"
  | "agg.run" :: t :: e :: rest =>
    match t.toNat?, parseUtf8 e, (match rest with | [] => some [] | [ms] => parseMessages ms | _ => none) with
    | some t, some e, some ms =>
      match Agg.retrieveOutputs kF t e ms with
      | .ok outs => showOutputs outs
      | .err _ => "err"
      | .panic _ => "panic"
    | _, _, _ => "bad-op"
  | _ => "bad-op"

def handle (toks : List String) : String :=
  match toks with
  | ["keccak", h] =>
    match Bytes.ofHex h with
    | some st => "ok " ++ Bytes.toHexP (kF st)
    | none => "bad-op"
  | "strobe" :: proto :: ops => handleStrobe proto ops
  | ["rng", proto, key, sizes] =>
    match Bytes.ofHex proto, Bytes.ofHex key, parseNatList sizes with
    | some p, some k, some ns =>
      "ok " ++ hexs (rngFills ⟨Strobe.key kF (Strobe.new kF p) k⟩ ns)
    | _, _, _ => "bad-op"
  | op :: _ =>
    if op.startsWith "fp." then handleFp toks
    else if op.startsWith "sharks." then handleSharks toks
    else if op.startsWith "adss." then handleAdss toks
    else if op.startsWith "star." ∨ op = "digest" then handleStar toks
    else if op.startsWith "wire." then handleWire toks
    else if op.startsWith "ggm." then handleGgm toks
    else if op.startsWith "sc." then handleScalar toks
    else if op.startsWith "ris." then handleRistretto toks
    else if op.startsWith "pp." then handlePp toks
    else if op.startsWith "srv." then handleSrv toks
    else if op.startsWith "cd." then handleCodec toks
    else if op.startsWith "wasm." ∨ op.startsWith "agg." then handleAgg toks
    else "bad-op"
  | _ => "bad-op"

partial def loop (h : IO.FS.Stream) (out : IO.FS.Stream) : IO Unit := do
  let line ← h.getLine
  if line.isEmpty then return ()
  let l := line.trimAscii.toString
  if l.isEmpty then
    out.putStrLn ""
  else
    out.putStrLn (handle (l.splitOn " "))
  loop h out

def main : IO Unit := do
  let stdin ← IO.getStdin
  let stdout ← IO.getStdout
  loop stdin stdout
